#!/bin/bash
# usage: scripts/eval_seeded.sh <ID> "<demo command, run inside the worktree>" <check> [<check>...]
# Verifies a sub-agent's seeded change in its scratch worktree (/tmp/mut/<ID>): demo fails with the
# change and passes without, the existing suite passes with it; then runs the named checks of /verif
# against it (applied to /repo, reverted straight afterwards) and files everything under seeded/<ID>/.
set -u
id="$1"; demo="$2"; shift 2
wt=${MUT_ROOT:-/tmp/mut}/$id
out=/verif/seeded/$id${SEEDED_SUFFIX:-}
mkdir -p "$out"
cp -r "$wt"/OUT/. "$out"/ 2>/dev/null; rm -f "$out"/go.mod
cd "$wt" || exit 2
log="$out/verification.log"; : > "$log"
echo "## build with change" >> "$log"
go build ./cluster/... ./shard/... ./httpapi/... ./utils/... ./models/... ./diskstore/... ./conversion/... ./distance/... >> "$log" 2>&1 && echo "build ok" >> "$log"
echo "## demo WITH change: $demo" >> "$log"
( eval "$demo" ) > /tmp/demo_with.$id 2>&1; rc_with=$?
tail -5 /tmp/demo_with.$id | tr -cd '\11\12\40-\176' >> "$log"; echo "rc=$rc_with" >> "$log"
echo "## existing suite WITH change (demo file moved away)" >> "$log"
demofiles=$(git status --porcelain | grep '^??' | awk '{print $2}' | grep -v '^OUT' )
mkdir -p ${MUT_ROOT:-/tmp/mut}/stash_$id; for f in $demofiles; do mkdir -p ${MUT_ROOT:-/tmp/mut}/stash_$id/$(dirname $f); mv $f ${MUT_ROOT:-/tmp/mut}/stash_$id/$f; done
go test -vet=off -count=1 ./... 2>&1 | grep -v "no test files\|^ok\|hdf5\|compilation terminated\|#include\|\^~" | tail -8 >> "$log"
suite_fail=$(go test -vet=off -count=1 ./... 2>&1 | grep -c "^FAIL.*semadb/\(cluster\|shard\|httpapi\|utils\|models\|diskstore\|conversion\|distance\)")
echo "failing non-hdf5 packages: $suite_fail" >> "$log"
for f in $demofiles; do mv ${MUT_ROOT:-/tmp/mut}/stash_$id/$f $f; done
echo "## demo WITHOUT change" >> "$log"
git apply -R OUT/patch.diff >> "$log" 2>&1
( eval "$demo" ) > /tmp/demo_without.$id 2>&1; rc_without=$?
tail -3 /tmp/demo_without.$id | tr -cd '\11\12\40-\176' >> "$log"; echo "rc=$rc_without" >> "$log"
git apply OUT/patch.diff
echo "## /verif checks against the change" >> "$log"
"${VERIF_DIR:-/verif}"/scripts/try_mutant.sh "$out/patch.diff" "$@" > /tmp/checks.$id 2>&1
cat /tmp/checks.$id >> "$log"
caught=$(grep -c "^VIOLATION" /tmp/checks.$id)
echo "RESULT id=$id demo_with_rc=$rc_with demo_without_rc=$rc_without suite_failing_pkgs=$suite_fail violations_reported=$caught"
grep -a "^== \|^VIOLATION\|class=" /tmp/checks.$id | head -12
