#!/bin/bash
# Regenerates every evidence file with the registered quick commands (no overrides).
cd /verif
unset VERIF_RUNS VERIF_CAP_S VERIF_KEEP_KNOWN VERIF_SEED
rc=0
for p in C01 C02 C03 C04 C05 C06 C07 C08 C09 C10 C11 C12 C14 C15 C16 C17 C18; do
  out=$(./check $p quick 2>&1); r=$?
  echo "$out" | grep -a "^VIOLATION\|^\[$p\|INFRA" | tr -cd '\11\12\40-\176' | cut -c1-200
  [ $r -ne 0 ] && rc=1
done
exit $rc
