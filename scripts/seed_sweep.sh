#!/bin/bash
# usage: scripts/seed_sweep.sh "<seed> <seed> ..." [<property> ...]
# Runs the quick tier of the given (default: all claimed) properties once per seed against the
# current tree and prints one line per (property, seed): anything but rc=0 is a false alarm to
# investigate (or a new finding). Evidence files are rewritten by these runs: regenerate them
# with scripts/run_all_quick.sh afterwards.
seeds="$1"; shift
props="${*:-C01 C02 C03 C04 C05 C06 C07 C08 C09 C10 C11 C12 C14 C15 C16 C17 C18}"
cd "$(dirname "$0")/.."
for s in $seeds; do
  for p in $props; do
    out=$(VERIF_SEED=$s ./check "$p" quick 2>&1); rc=$?
    echo "seed=$s $p rc=$rc $(echo "$out" | grep -a "^\[$p" | tr -cd '\11\12\40-\176' | cut -c1-160)"
    [ $rc -ne 0 ] && echo "$out" | grep -a "^VIOLATION\|^  class=\|INFRA" | cut -c1-300
  done
done
