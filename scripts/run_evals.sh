#!/bin/bash
# usage: run_evals.sh <queue file>; lines: ID|demo cmd|checks
export VERIF_DIR=${VERIF_DIR:-/tmp/vsnap} SEEDED_SUFFIX=${SEEDED_SUFFIX:--w2} MUT_ROOT=${MUT_ROOT:-/tmp/mut}
unset GOTOOLCHAIN GOFLAGS GOPROXY GOSUMDB
cd /verif
while IFS='|' read -r id demo checks; do
  [ -z "$id" ] && continue
  scripts/eval_seeded.sh "$id" "$demo" $checks 2>&1 | tail -12 | cut -c1-300
  git -C /repo status --short | head -3
done < "$1"
