#!/usr/bin/env python3
"""Regenerates MANIFEST.json from the table below (kept in one place so that it stays valid)."""
import json, os
VERIF = os.path.dirname(os.path.dirname(os.path.abspath(__file__)))

CLAIMED = {
 "C02": ("exploration", "7 C02", "Seeded write histories (inserts, updates that change/add/remove indexed fields including nested paths, deletes, reopen) on a real shard with string (both case sensitivities), string-array, integer and float indexes under seeded schedules of the write pipeline; after every write a seeded panel of filter queries (every operator, boundary operands, _and/_or trees to depth 3, _id lookups) is asked of the warm instance and periodically of a cold copy of the file; the returned id set must equal the set computed by an independent evaluator over the reference model (IEEE comparison for numbers, byte order of the possibly folded string for strings). Only tolerance: a zero compared with a zero of the opposite sign may fall either way. Evidence, not proof.",
         "deterministic simulation: seeded scheduler + reference-model evaluator of every filter operator (exact set equality)"),
 "C03": ("exploration", "7 C03", "Seeded write histories on a real shard with a Vamana index (all metrics, quantiser none / binary fixed / binary learned, legal parameters) built by 1-4 insert workers that the seeded scheduler interleaves at every node lock, cache mutex and storage operation; after every write seeded graph queries are asked of warm and cold instances. Always checked: results live, carry the field, inside the pre-filter, distinct, <= limit, non-decreasing distance, distance = index distance recomputed from the definition (quantised form from persisted parameters), hybrid = -weight*distance, no error. Exact tie-tolerant k-NN demanded in the two regimes the property names. Product quantiser not generated in quick/thorough (needs >= 1000 points).",
         "deterministic simulation: seeded interleaving of graph insert workers + validity and exact-regime k-NN oracles"),
 "C04": ("exploration", "7 C04", "Seeded write histories (inserts, vector updates and removal, deletes, reopen, eviction) on a real shard with a flat vector index (six metrics; quantiser none / binary fixed / binary learned with a small trigger so that training happens mid-history) under seeded schedules; after every write seeded queries (limits 1..75, weights, pre-filters) are asked of the warm instance and of cache-disabled and cold instances opened on copies of the file; every answer must be the exact tie-tolerant limit-NN of the reference model with distances recomputed in float64 from the metric definitions (quantised form from the persisted threshold), hybrid = -weight*distance. Product quantiser (needs >= 1000 points) only in validity mode. Evidence, not proof.",
         "deterministic simulation: seeded scheduler + exact k-NN reference model over warm / cold / cache-disabled instances"),
 "C05": ("exploration", "7 C05", "Seeded histories that insert, rewrite, blank out and delete text fields on a real shard with a text index under seeded schedules of 1-4 analysis workers and the index writer; after every write seeded text queries (both operators, repeated / stop-word-only / mixed-case / unicode terms, limits, weights, pre-filters) are compared on warm and cold instances with an independent tf-idf computation over the model corpus (bleve's standard analyser is the shared dependency): exact match set, tie-tolerant top-limit cut, scores within 1e-4, hybrid = weight*score. A containsAll query that analyses to zero terms is only required not to fail.",
         "deterministic simulation: seeded scheduler + independent tf-idf reference computation"),
 "C06": ("exploration", "7 C06", "Seeded histories then seeded composite requests (_or/_and trees of vector, text and filter sub-queries with arbitrary weights, select lists incl. colliding and absent paths, up to 4 sort keys, offsets beyond the result size, limits) on a real shard; sub-query goroutines of searchParallel run under the seeded scheduler. The model evaluates the tree (set algebra over tie-free model sub-results, summed weighted contributions); the un-paged answer is checked for set equality, hybrid scores, projections and order consistency with the documented comparator, the page by a tie-tolerant rank-bound check. Requests whose answer the statement leaves open are skipped and counted.",
         "deterministic simulation: seeded scheduler + reference evaluator of query trees, select, sort and paging"),
 "C08": ("exploration", "7 C08", "One seeded history of successful batches is executed independently under several configurations of the same real shard code (unlimited cache, tiny cache limit forcing LRU pruning, cache disabled, reopen after every batch, explicit release after every batch, in-memory backend), each under its own seeded schedule. After every batch every configuration is audited against the model; each file-backed one must give the same panel answers from the live instance and from a cold instance on a copy of its file (durability, warm == cold, incl. quantised and graph indexes); across configurations exact-semantics queries must agree with the unlimited-cache configuration (graph queries excluded: independently built graphs legitimately differ).",
         "deterministic simulation: differential execution across cache configurations / backends / restart points + reference model"),
 "C09": ("exploration", "7 C09", "A real file-backed shard with a shared cache (cold / half-warm / warm) is driven by 2-4 searcher tasks and 1-2 writer tasks; the seeded scheduler (random, PCT with change points inside the run, sticky) decides who runs at every storage operation, transaction boundary, cache-manager lock, node lock, channel and WaitGroup operation. The recorded history (invoke/return and commit stamps from the global event counter) is checked: no panic in any goroutine and no storage handle used after its transaction ended; no search error; every returned (id, document) is a committed version live in a committed state inside the search interval; per-id _id read/write histories linearizable against a register model with porcupine v1.3.0; write outcomes equal the model applied in storage-transaction order; final state = model; warm panel = cold panel.",
         "deterministic simulation: seeded interleaving search over N client tasks + history checking (committed-version window, porcupine linearizability, commit-order refinement)"),
 "C11": ("exploration", "7 C11", "The real cache.Manager alone (world M) with synthetic cachables mirroring a tiny versioned committed storage. Up to 3 concurrent transactions, each a program of 1-4 With accesses (read-only / writing, sequential or in parallel goroutines) on names {a,b} followed by Commit; callbacks and constructors fail per the fault plan; storage failure => Commit(true); Release at seeded moments; size limits -1 / 0 / small (pruning). Every lock operation inside With / Commit / checkAndPrune and every yield inside callbacks is a scheduling point of the seeded scheduler. Invariants checked inside instrumented callbacks: writer isolation per object, non-reuse of scrapped objects, no uncommitted or aborted write visible, no cache older than the holder's snapshot, no deadlock (lock-waiter tracking), progress of fresh transactions on every name afterwards.",
         "deterministic simulation: seeded interleaving of cache transactions at every lock operation + isolation / scrap / staleness / progress invariants"),
 "C10": ("exploration", "7 C10", "Seeded histories (large inserts, updates that add/change/remove the vector field in one batch, deletes of a point with all its out-neighbours read from the previous dump, re-insertion into freed node ids, reopen) on a real shard with a Vamana index; insert workers interleaved and map orders permuted by the simulator. After every successful write the committed file is dumped with bbolt directly and structural invariants are checked: node set = vector set = entry + live points with the field, edges to existing other nodes, degree bound, recorded max node id, uuid<->node id bijection equal to the model, free list vs live ids, stored plain vectors.",
         "deterministic simulation: seeded scheduler + structural invariants over raw bucket dumps after every write"),
 "C12": ("exploration", "7 C12", "The real ShardManager with real shards on real bbolt files under the fake clock: 2-4 request tasks (DoWithShard with Info / insert / search callbacks), 0-2 deleting tasks, idle timeout 1-3 simulated seconds, backups on/off. The seeded scheduler interleaves at every lock, channel, timer and storage operation and advances simulated time at seeded moments so that the idle timer fires during requests and deletions. Checked: no storage transaction on a closed store, no database file open twice at once, no directory removed while a store below it is open, only clean errors from DoWithShard, no deadlock (lock-waiter tracking), and bounded liveness: once time jumps stop, a request on every shard succeeds.",
         "deterministic simulation: seeded interleaving + simulated clock jumps over the shard lifecycle; use-after-close / double-open / removal audits; deadlock detection; bounded liveness"),
 "C07": ("fault_enumeration", "7 C07", "For sampled (history, schedule) pairs a fault-free dry run counts the storage operations of a target write batch; then one fault per simulated process life: validation rejections, error from the k-th put/delete/scan/bucket-open, commit failure, disk full and meta-write failure (bbolt's own gofail failpoints), process kill at the k-th storage operation / before commit / between data and meta sync / after commit. Quick samples 5 faults per history; thorough additionally enumerates every kind x every k of the batch for a third of the histories (exhaustive for that batch). Oracle: failed call => warm answers, cold answers on a file copy and the logical file digest equal the pre-batch state and the rest of the history still behaves; success => post-batch state; kill => the reopened file is exactly the pre- or post-batch state as the crash point dictates; any panic in any goroutine or use of a storage handle after its transaction ended is a violation.",
         "deterministic simulation + storage fault / crash-point enumeration (storage proxy, bbolt gofail failpoints), pre/post-state refinement oracle"),
 "C01": ("exploration", "7 C01", "Seeded histories of insert/update/delete/reopen/evict batches on a real shard (bbolt or memory backend) under seeded schedules of its internal pipeline goroutines; after every batch the complete stored state (id set, every document, point count) and every call's return values are compared with an independent reference model. Evidence, not proof: sampling of histories x schedules.",
         "deterministic simulation: seeded scheduler + reference model (refinement check after every operation)"),
 "C15": ("exploration", "7 C15", "1-3 real ClusterNodes over the simulated transport with small per-shard point and size caps and small quotas; seeded sequences of insert requests (0-40 fresh ids, varied point sizes, seeded entry node; optionally one shard-level insert RPC refused cleanly by its server => failed range) and collection creations around the quota boundaries. Raw dumps of every shard file and node database after every request decide: exactly-one-shard placement of non-failed points, none for failed ones, contiguity of each shard's share of the id-sorted batch, the point cap, the count identity (raw and via GetShardsInfo), and that quota refusals leave all stored state logically unchanged. Executed-but-unacknowledged inserts are deliberately not injected (the property does not quantify over them).",
         "deterministic simulation: multi-node cluster over a simulated transport + raw-file placement, cap, contiguity and conservation audits"),
 "C17": ("exploration", "7 C17", "1-3 real ClusterNodes (node database, shard manager, real shards on real files) joined by the simulated transport (semadb's msgpack codec and the net/rpc client are real; the server loop is a reflection dispatcher whose request handlers are simulator tasks). Seeded histories of insert / update / delete / search through seeded entry nodes over 1-6 shards, with one shard server killed and later restarted on its files during part of the history. After every request raw dumps of every shard file decide exactly-once placement; failed lists and their messages are compared with the model restricted to reachable shards; every point is read back with its model document through every live node; merged searches are checked for limit, distinctness, model documents and scores, global order, and exactness when limit <= 10.",
         "deterministic simulation: multi-node cluster over a simulated transport with node kill/restart + reference model and raw-file placement audit"),
}
PENDING = {}
NA = {
 "C13": "pure function of (key, server set): no schedule, clock, fault or I/O for a simulator to own (DESIGN.md section 1)",
 "C19": "pure encode/decode functions of their argument: deciding them is input generation, not simulation (DESIGN.md section 1)",
 "C20": "pure numeric kernels of two slices: no schedule, clock, fault or I/O (DESIGN.md section 1)",
}
ALL = ["C%02d" % i for i in range(1, 21)]

def main():
    checks = []
    for pid in ALL:
        if pid in CLAIMED:
            level, ref, text, tech = CLAIMED[pid]
            checks.append({
                "property_id": pid,
                "quick_cmd": "./check %s quick" % pid,
                "thorough_cmd": "./check %s thorough" % pid,
                "evidence_file": "evidence/%s.json" % pid,
                "replay_cmd_template": "./check %s --replay {path}" % pid,
                "engine": "semasim",
                "level_claimed": {"category": level, "text": text, "design_ref": "DESIGN.md section " + ref},
                "level_note": "Trusted base: go1.26.8 testing/synctest, the simgo AST rewrite (validated by running the repository's tests on the rewritten tree), bbolt, msgpack, roaring, bleve analyser, the reference models in /verif/harness. Interleavings at channel/lock/storage/timer granularity only.",
                "technique": tech,
            })
    na = [{"property_id": k, "reason": v} for k, v in sorted(NA.items())]
    for pid in ALL:
        if pid not in CLAIMED and pid not in NA:
            na.append({"property_id": pid, "reason": PENDING.get(pid, "simulation check designed in DESIGN.md section 7 but not built yet in this tree; not claimed until it is")})
    m = {
        "version": 1,
        "setup_cmd": "./check setup",
        "hooks": {
            "guard": "none in /repo: seams are created by AST instrumentation (tools/simgo) of a scratch copy of /repo's working tree at check time",
            "enable": "./check builds: rsync /repo -> scratch, simgo rewrite (+zzsimrt runtime, storage/transport seams), bbolt copy with gofail failpoints, go1.26.8 test -c",
            "baseline_off_cmd": "cd /repo && go build ./... && go test -vet=off -count=1 -timeout 25m ./...",
            "source_commits": [],
            "add_only": True,
        },
        "engines": [{"name": "semasim", "path": "check", "serves_properties": sorted(CLAIMED), "kind_free_text": "deterministic simulation with fault injection: seeded cooperative scheduler over testing/synctest, storage proxy over real bbolt with gofail failpoints, in-memory RPC transport, reference models"}],
        "checks": checks,
        "not_applicable": sorted(na, key=lambda x: x["property_id"]),
        "notes": "See DESIGN.md. Replay files under replays/. Known findings in known_findings.txt.",
    }
    with open(os.path.join(VERIF, "MANIFEST.json"), "w") as f:
        json.dump(m, f, indent=1)

if __name__ == "__main__":
    main()
