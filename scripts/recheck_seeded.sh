#!/bin/bash
# usage: scripts/recheck_seeded.sh [<seeded dir name> ...]
# Regression of the mutation suite: applies every kept seeded change (seeded/*/patch.diff) to /repo in
# turn, runs the quick tier of the checks its meta.json names under caught_by, reverts, and prints one
# line per change: STILL-CAUGHT / NOT-CAUGHT (+ which checks fired). Run it after the checks were
# strengthened or relaxed. /repo must be clean; it is left clean.
cd "$(dirname "$0")/.."
names="${*:-$(ls seeded)}"
for n in $names; do
  d=seeded/$n
  [ -f "$d/patch.diff" ] && [ -f "$d/meta.json" ] || continue
  checks=$(python3 -c "import json;print(' '.join(json.load(open('$d/meta.json'))['caught_by']))")
  out=$(scripts/try_mutant.sh "$PWD/$d/patch.diff" $checks 2>&1)
  fired=$(echo "$out" | awk '/^== /{c=$2} /^VIOLATION/{print c}' | sort -u | tr '\n' ' ')
  if echo "$out" | grep -q "patch does not apply\|not clean"; then echo "$n PATCH-PROBLEM: $(echo "$out" | head -2 | tr '\n' ' ')"; continue; fi
  if [ -n "$fired" ]; then echo "$n STILL-CAUGHT by: $fired (listed: $checks)"; else echo "$n NOT-CAUGHT (listed: $checks)"; fi
done
