#!/bin/bash
# usage: scripts/try_mutant.sh <patch.diff> <property> [<property>...]
# Applies a seeded change to /repo, runs the quick checks of the given properties, reverts.
set -u
patch="$1"; shift
cd /repo || exit 2
if [ -n "$(git status --porcelain)" ]; then echo "/repo not clean"; exit 2; fi
git apply "$patch" || { echo "patch does not apply"; exit 2; }
cd "${VERIF_DIR:-/verif}"
for p in "$@"; do
  out=$(./check "$p" quick 2>&1)
  rc=$?
  echo "== $p rc=$rc"
  echo "$out" | grep -a "^VIOLATION\|^KNOWN-FINDING\|^  class=\|^\[$p\|INFRA" | tr -cd '\11\12\40-\176' | cut -c1-300 | head -12
done
git -C /repo checkout -- . && git -C /repo clean -fdq
