// simgo rewrites a scratch copy of the semadb source tree so that every source of
// nondeterminism the properties depend on goes through the zzsimrt runtime
// (see /verif/DESIGN.md section 3.2). It never touches /repo itself.
//
// usage: simgo <scratch-repo-root> <simrt-source-dir>
package main

import (
	"bytes"
	"encoding/json"
	"fmt"
	"go/ast"
	"go/format"
	"go/token"
	"go/types"
	"os"
	"path/filepath"
	"strings"

	"golang.org/x/tools/go/ast/astutil"
	"golang.org/x/tools/go/packages"
)

const rtPath = "github.com/semafind/semadb/zzsimrt"

var skipPkgs = []string{"/internal/", "/zzsimrt", "/distance/asm/", "/docs"}

type rewriter struct {
	pkg   *packages.Package
	fset  *token.FileSet
	file  *ast.File
	used  bool
	nsite int
	tmp   int
	stats map[string]int
}

func (r *rewriter) site(n ast.Node) ast.Expr {
	p := r.fset.Position(n.Pos())
	r.nsite++
	return &ast.BasicLit{Kind: token.STRING, Value: fmt.Sprintf("%q", fmt.Sprintf("%s:%d", filepath.Base(p.Filename), p.Line))}
}

func (r *rewriter) rt(name string) ast.Expr {
	r.used = true
	return &ast.SelectorExpr{X: ast.NewIdent("zzsimrt"), Sel: ast.NewIdent(name)}
}

func (r *rewriter) call(name string, args ...ast.Expr) *ast.CallExpr {
	return &ast.CallExpr{Fun: r.rt(name), Args: args}
}

func (r *rewriter) fresh(p string) *ast.Ident { r.tmp++; return ast.NewIdent(fmt.Sprintf("_zz%s%d", p, r.tmp)) }

func (r *rewriter) typeOf(e ast.Expr) types.Type { return r.pkg.TypesInfo.TypeOf(e) }

func isNamed(t types.Type, pkg, name string) (ok bool, ptr bool) {
	if t == nil {
		return false, false
	}
	if p, isP := t.(*types.Pointer); isP {
		ok, _ := isNamed(p.Elem(), pkg, name)
		return ok, true
	}
	if n, isN := t.(*types.Named); isN {
		o := n.Obj()
		return o.Pkg() != nil && o.Pkg().Path() == pkg && o.Name() == name, false
	}
	return false, false
}

func (r *rewriter) addr(x ast.Expr, ptr bool) ast.Expr {
	if ptr {
		return x
	}
	return &ast.UnaryExpr{Op: token.AND, X: x}
}

// pkgFunc reports whether call is pkgpath.name(...)
func (r *rewriter) pkgFunc(call *ast.CallExpr) (string, string) {
	sel, ok := call.Fun.(*ast.SelectorExpr)
	if !ok {
		return "", ""
	}
	if obj, ok := r.pkg.TypesInfo.Uses[sel.Sel].(*types.Func); ok && obj.Pkg() != nil {
		if sig := obj.Type().(*types.Signature); sig.Recv() == nil {
			return obj.Pkg().Path(), obj.Name()
		}
	}
	return "", ""
}

func (r *rewriter) rewriteSelect(c *astutil.Cursor, s *ast.SelectStmt) {
	hasDefault := false
	for _, cc := range s.Body.List {
		if cc.(*ast.CommClause).Comm == nil {
			hasDefault = true
		}
	}
	if hasDefault {
		r.stats["select-default"]++
		if _, isList := c.Parent().(*ast.BlockStmt); isList {
			c.InsertBefore(&ast.ExprStmt{X: r.call("Yield", r.site(s))})
		}
		return
	}
	r.stats["select"]++
	// hoist channel / value expressions, build per-case comm stmts
	var pre []ast.Stmt
	idx := r.fresh("idx")
	pre = append(pre, &ast.AssignStmt{Lhs: []ast.Expr{idx}, Tok: token.DEFINE, Rhs: []ast.Expr{&ast.UnaryExpr{Op: token.SUB, X: &ast.BasicLit{Kind: token.INT, Value: "1"}}}})
	n := len(s.Body.List)
	comms := make([]func() ast.Stmt, n) // fresh copy each time (AST nodes must not be shared)
	bodies := make([][]ast.Stmt, n)
	for i, cl := range s.Body.List {
		cc := cl.(*ast.CommClause)
		setIdx := func() ast.Stmt {
			return &ast.AssignStmt{Lhs: []ast.Expr{ast.NewIdent(idx.Name)}, Tok: token.ASSIGN, Rhs: []ast.Expr{&ast.BasicLit{Kind: token.INT, Value: fmt.Sprint(i)}}}
		}
		_ = setIdx
		switch comm := cc.Comm.(type) {
		case *ast.SendStmt:
			ch := r.fresh("c")
			pre = append(pre, &ast.AssignStmt{Lhs: []ast.Expr{ch}, Tok: token.DEFINE, Rhs: []ast.Expr{comm.Chan}})
			var val ast.Expr = comm.Value
			if tv, ok := r.pkg.TypesInfo.Types[comm.Value]; !(ok && (tv.Value != nil || tv.IsNil())) {
				v := r.fresh("v")
				pre = append(pre, &ast.AssignStmt{Lhs: []ast.Expr{v}, Tok: token.DEFINE, Rhs: []ast.Expr{comm.Value}})
				val = v
			}
			chn, vn := ch.Name, val
			comms[i] = func() ast.Stmt { return &ast.SendStmt{Chan: ast.NewIdent(chn), Value: vn} }
			bodies[i] = cc.Body
		case *ast.ExprStmt: // <-ch
			ue := comm.X.(*ast.UnaryExpr)
			ch := r.fresh("c")
			pre = append(pre, &ast.AssignStmt{Lhs: []ast.Expr{ch}, Tok: token.DEFINE, Rhs: []ast.Expr{ue.X}})
			chn := ch.Name
			comms[i] = func() ast.Stmt { return &ast.ExprStmt{X: &ast.UnaryExpr{Op: token.ARROW, X: ast.NewIdent(chn)}} }
			bodies[i] = cc.Body
		case *ast.AssignStmt: // v := <-ch ; v, ok := <-ch ; v = <-ch
			ue := comm.Rhs[0].(*ast.UnaryExpr)
			ch := r.fresh("c")
			slot := r.fresh("r")
			pre = append(pre, &ast.AssignStmt{Lhs: []ast.Expr{ch}, Tok: token.DEFINE, Rhs: []ast.Expr{ue.X}})
			pre = append(pre, &ast.AssignStmt{Lhs: []ast.Expr{slot}, Tok: token.DEFINE, Rhs: []ast.Expr{r.call("RecvSlot", ast.NewIdent(ch.Name))}})
			chn, sn := ch.Name, slot.Name
			comms[i] = func() ast.Stmt {
				return &ast.AssignStmt{Lhs: []ast.Expr{&ast.SelectorExpr{X: ast.NewIdent(sn), Sel: ast.NewIdent("V")}, &ast.SelectorExpr{X: ast.NewIdent(sn), Sel: ast.NewIdent("OK")}}, Tok: token.ASSIGN, Rhs: []ast.Expr{&ast.UnaryExpr{Op: token.ARROW, X: ast.NewIdent(chn)}}}
			}
			// bind user variables at the top of the body
			var bind ast.Stmt
			rhs := []ast.Expr{&ast.SelectorExpr{X: ast.NewIdent(sn), Sel: ast.NewIdent("V")}}
			if len(comm.Lhs) == 2 {
				rhs = append(rhs, &ast.SelectorExpr{X: ast.NewIdent(sn), Sel: ast.NewIdent("OK")})
			}
			bind = &ast.AssignStmt{Lhs: comm.Lhs, Tok: comm.Tok, Rhs: rhs}
			body := []ast.Stmt{bind}
			if comm.Tok == token.DEFINE { // avoid "declared and not used"
				for _, l := range comm.Lhs {
					if id, ok := l.(*ast.Ident); ok && id.Name != "_" {
						body = append(body, &ast.AssignStmt{Lhs: []ast.Expr{ast.NewIdent("_")}, Tok: token.ASSIGN, Rhs: []ast.Expr{ast.NewIdent(id.Name)}})
					}
				}
			}
			bodies[i] = append(body, cc.Body...)
		}
	}
	mkCase := func(i int, withDefault bool) ast.Stmt {
		cl := &ast.CommClause{Comm: comms[i](), Body: []ast.Stmt{&ast.AssignStmt{Lhs: []ast.Expr{ast.NewIdent(idx.Name)}, Tok: token.ASSIGN, Rhs: []ast.Expr{&ast.BasicLit{Kind: token.INT, Value: fmt.Sprint(i)}}}}}
		list := []ast.Stmt{cl}
		if withDefault {
			list = append(list, &ast.CommClause{})
		}
		return &ast.SelectStmt{Body: &ast.BlockStmt{List: list}}
	}
	// polling phase: for _, i := range Perm(site, n) { switch i { case k: select{case comm: idx=k; default:} }; if idx>=0 {break} }
	iv := r.fresh("i")
	var sw []ast.Stmt
	for i := 0; i < n; i++ {
		sw = append(sw, &ast.CaseClause{List: []ast.Expr{&ast.BasicLit{Kind: token.INT, Value: fmt.Sprint(i)}}, Body: []ast.Stmt{mkCase(i, true)}})
	}
	poll := &ast.RangeStmt{Key: ast.NewIdent("_"), Value: iv, Tok: token.DEFINE, X: r.call("SelectOrder", r.site(s), &ast.BasicLit{Kind: token.INT, Value: fmt.Sprint(n)}),
		Body: &ast.BlockStmt{List: []ast.Stmt{
			&ast.SwitchStmt{Tag: ast.NewIdent(iv.Name), Body: &ast.BlockStmt{List: sw}},
			&ast.IfStmt{Cond: &ast.BinaryExpr{X: ast.NewIdent(idx.Name), Op: token.GEQ, Y: &ast.BasicLit{Kind: token.INT, Value: "0"}}, Body: &ast.BlockStmt{List: []ast.Stmt{&ast.BranchStmt{Tok: token.BREAK}}}},
		}}}
	// blocking phase
	var all []ast.Stmt
	for i := 0; i < n; i++ {
		all = append(all, mkCase(i, false).(*ast.SelectStmt).Body.List[0])
	}
	block := &ast.IfStmt{Cond: &ast.BinaryExpr{X: ast.NewIdent(idx.Name), Op: token.LSS, Y: &ast.BasicLit{Kind: token.INT, Value: "0"}}, Body: &ast.BlockStmt{List: []ast.Stmt{
		&ast.SelectStmt{Body: &ast.BlockStmt{List: all}},
		&ast.ExprStmt{X: r.call("Woke", r.site(s))},
	}}}
	// dispatch
	var disp []ast.Stmt
	for i := 0; i < n; i++ {
		disp = append(disp, &ast.CaseClause{List: []ast.Expr{&ast.BasicLit{Kind: token.INT, Value: fmt.Sprint(i)}}, Body: bodies[i]})
	}
	dispatch := &ast.SwitchStmt{Tag: ast.NewIdent(idx.Name), Body: &ast.BlockStmt{List: disp}}
	stmts := append(pre, poll, block, dispatch)
	c.Replace(&ast.BlockStmt{List: stmts})
}

func (r *rewriter) rewriteGo(c *astutil.Cursor, g *ast.GoStmt) {
	r.stats["go"]++
	var pre []ast.Stmt
	call := g.Call
	hoist := func(e ast.Expr) ast.Expr {
		if tv, ok := r.pkg.TypesInfo.Types[e]; ok && (tv.Value != nil || tv.IsNil()) {
			return e
		}
		if _, isLit := e.(*ast.FuncLit); isLit {
			return e
		}
		v := r.fresh("a")
		pre = append(pre, &ast.AssignStmt{Lhs: []ast.Expr{v}, Tok: token.DEFINE, Rhs: []ast.Expr{e}})
		return ast.NewIdent(v.Name)
	}
	newCall := &ast.CallExpr{Fun: call.Fun, Ellipsis: call.Ellipsis}
	if sel, ok := call.Fun.(*ast.SelectorExpr); ok { // method value / pkg func: hoist receiver if it is not a package
		if _, isPkg := r.pkg.TypesInfo.Uses[identOf(sel.X)].(*types.PkgName); !isPkg {
			newCall.Fun = &ast.SelectorExpr{X: hoist(sel.X), Sel: sel.Sel}
		}
	}
	for _, a := range call.Args {
		newCall.Args = append(newCall.Args, hoist(a))
	}
	goCall := &ast.ExprStmt{X: r.call("Go", r.site(g), &ast.FuncLit{Type: &ast.FuncType{Params: &ast.FieldList{}}, Body: &ast.BlockStmt{List: []ast.Stmt{&ast.ExprStmt{X: newCall}}}})}
	c.Replace(&ast.BlockStmt{List: append(pre, goCall)})
}

func identOf(e ast.Expr) *ast.Ident {
	id, _ := e.(*ast.Ident)
	return id
}

// stmtYieldPkgs: packages whose every statement is preceded by an optional
// preemption point (zzsimrt.StmtYield). The request handlers and the cluster layer
// share state between request goroutines through closures and struct fields with no
// synchronisation operation in between; without these points two requests could
// only interleave at locks, channels, storage and rpc operations. The index / shard
// packages are left out (hot loops; their sharing goes through locks and the cache
// manager, which are scheduling points already), and so is cluster/mrpc (its codec
// runs under net/rpc's own, real, request mutex).
func stmtYieldPkg(path string) bool {
	if strings.HasSuffix(path, "/cluster") || strings.Contains(path, "/httpapi") {
		return true
	}
	// the write / search assembly of a shard and the pipeline stages it is built from:
	// windows between starting a stage goroutine, checking a context and returning have
	// no synchronisation operation in them. The hot inner loops (graph, vector stores,
	// item cache, distance, conversion) stay without.
	for _, suf := range []string{"/semadb/shard", "/semadb/shard/index", "/semadb/shard/index/inverted", "/semadb/shard/index/text", "/semadb/utils", "/semadb/shard/pointstore"} {
		if strings.HasSuffix(path, suf) {
			return true
		}
	}
	return false
}

func (r *rewriter) stmtYields() {
	skip := map[*ast.FuncLit]bool{}
	ast.Inspect(r.file, func(n ast.Node) bool {
		if call, ok := n.(*ast.CallExpr); ok {
			if sel, ok := call.Fun.(*ast.SelectorExpr); ok {
				if t := r.typeOf(sel.X); t != nil {
					if ok, _ := isNamed(t, "sync", "Once"); ok { // runs under sync.Once's real mutex
						for _, a := range call.Args {
							if fl, ok := a.(*ast.FuncLit); ok {
								skip[fl] = true
							}
						}
					}
				}
			}
		}
		return true
	})
	inject := func(list []ast.Stmt) []ast.Stmt {
		out := make([]ast.Stmt, 0, 2*len(list))
		for _, s := range list {
			r.stats["stmt-yield"]++
			out = append(out, &ast.ExprStmt{X: r.call("StmtYield", r.site(s))}, s)
		}
		return out
	}
	clausesOnly := map[*ast.BlockStmt]bool{}
	ast.Inspect(r.file, func(n ast.Node) bool {
		switch x := n.(type) {
		case *ast.FuncLit:
			if skip[x] {
				return false
			}
		case *ast.SwitchStmt:
			clausesOnly[x.Body] = true
		case *ast.TypeSwitchStmt:
			clausesOnly[x.Body] = true
		case *ast.SelectStmt:
			clausesOnly[x.Body] = true
		case *ast.BlockStmt:
			if !clausesOnly[x] {
				x.List = inject(x.List)
			}
		case *ast.CaseClause:
			x.Body = inject(x.Body)
		case *ast.CommClause:
			x.Body = inject(x.Body)
		}
		return true
	})
}

func (r *rewriter) apply() {
	inSelectComm := map[ast.Node]bool{}
	astutil.Apply(r.file, func(c *astutil.Cursor) bool {
		if cc, ok := c.Node().(*ast.CommClause); ok && cc.Comm != nil {
			ast.Inspect(cc.Comm, func(n ast.Node) bool {
				if n != nil {
					inSelectComm[n] = true
				}
				return true
			})
		}
		return true
	}, func(c *astutil.Cursor) bool { // post-order so nested constructs are rewritten first
		switch n := c.Node().(type) {
		case *ast.GoStmt:
			r.rewriteGo(c, n)
		case *ast.SelectStmt:
			if _, labelled := c.Parent().(*ast.LabeledStmt); labelled {
				// "L: select {…}" may be the target of "break L": keep the statement, only count it
				r.stats["select-labelled-kept"]++
				return true
			}
			r.rewriteSelect(c, n)
		case *ast.SendStmt:
			if inSelectComm[n] {
				return true
			}
			r.stats["send"]++
			c.Replace(&ast.ExprStmt{X: r.call("Send", r.site(n), n.Chan, n.Value)})
		case *ast.UnaryExpr:
			if n.Op != token.ARROW || inSelectComm[n] {
				return true
			}
			if as, ok := c.Parent().(*ast.AssignStmt); ok && len(as.Lhs) == 2 && len(as.Rhs) == 1 {
				r.stats["recv2"]++
				c.Replace(r.call("Recv2", r.site(n), n.X))
				return true
			}
			if vs, ok := c.Parent().(*ast.ValueSpec); ok && len(vs.Names) == 2 {
				r.stats["recv2"]++
				c.Replace(r.call("Recv2", r.site(n), n.X))
				return true
			}
			r.stats["recv"]++
			c.Replace(r.call("Recv", r.site(n), n.X))
		case *ast.RangeStmt:
			t := r.typeOf(n.X)
			if t == nil {
				return true
			}
			switch t.Underlying().(type) {
			case *types.Map:
				r.stats["rangemap"]++
				n.X = r.call("RangeMap", r.site(n), n.X)
			case *types.Chan:
				r.stats["rangechan"]++
				n.X = r.call("RangeChan", r.site(n), n.X)
			}
		case *ast.CallExpr:
			if sel, ok := n.Fun.(*ast.SelectorExpr); ok {
				if s := r.pkg.TypesInfo.Selections[sel]; s != nil && s.Kind() == types.MethodVal {
					fn := s.Obj().(*types.Func)
					if fn.Pkg() != nil && fn.Pkg().Path() == "sync" {
						recvT := r.typeOf(sel.X)
						recvX := sel.X
						if idx := s.Index(); len(idx) > 1 { // method promoted through embedded fields
							t := recvT
							for _, fi := range idx[:len(idx)-1] {
								if pt, ok := t.Underlying().(*types.Pointer); ok {
									t = pt.Elem()
								}
								st, ok := t.Underlying().(*types.Struct)
								if !ok {
									r.stats["sync-promoted-unhandled"]++
									break
								}
								fld := st.Field(fi)
								recvX = &ast.SelectorExpr{X: recvX, Sel: ast.NewIdent(fld.Name())}
								t = fld.Type()
							}
							recvT = t
							sel = &ast.SelectorExpr{X: recvX, Sel: sel.Sel}
						}
						if ok, ptr := isNamed(recvT, "sync", "Pool"); ok {
							// a sync.Pool hands back "some" earlier object (per-P caches, GC): owned by
							// the simulator so that one seed stays one execution
							switch fn.Name() {
							case "Get":
								r.stats["PoolGet"]++
								c.Replace(r.call("PoolGet", r.addr(sel.X, ptr)))
							case "Put":
								if len(n.Args) == 1 {
									r.stats["PoolPut"]++
									c.Replace(r.call("PoolPut", r.addr(sel.X, ptr), n.Args[0]))
								}
							}
						}
						for _, tn := range []string{"Mutex", "RWMutex", "WaitGroup"} {
							if ok, ptr := isNamed(recvT, "sync", tn); ok {
								name := ""
								switch tn + "." + fn.Name() {
								case "Mutex.Lock":
									name = "MuLock"
								case "Mutex.Unlock":
									name = "MuUnlock"
								case "Mutex.TryLock":
									name = "MuTryLock"
								case "RWMutex.Lock":
									name = "RWLock"
								case "RWMutex.Unlock":
									name = "RWUnlock"
								case "RWMutex.RLock":
									name = "RWRLock"
								case "RWMutex.RUnlock":
									name = "RWRUnlock"
								case "RWMutex.TryRLock":
									name = "RWTryRLock"
								case "RWMutex.TryLock":
									name = "RWTryLock"
								case "WaitGroup.Wait":
									name = "WGWait"
								}
								if name != "" {
									r.stats[name]++
									c.Replace(r.call(name, r.site(n), r.addr(sel.X, ptr)))
								}
							}
						}
					}
				}
			}
			p, f := r.pkgFunc(n)
			switch p + "." + f {
			case "time.Sleep":
				r.stats["sleep"]++
				n.Fun = r.rt("Sleep")
			case "runtime.NumCPU":
				r.stats["numcpu"]++
				n.Fun = r.rt("NumCPU")
			case "math/rand/v2.Float32":
				r.stats["rand"]++
				n.Fun = r.rt("RandFloat32")
			case "math/rand/v2.IntN":
				r.stats["rand"]++
				n.Fun = r.rt("RandIntN")
			case "math/rand/v2.Float64":
				r.stats["rand"]++
				n.Fun = r.rt("RandFloat64")
			case "math/rand/v2.Perm":
				r.stats["rand"]++
				n.Fun = r.rt("RandPerm")
			case "math/rand/v2.Shuffle":
				r.stats["rand"]++
				n.Fun = r.rt("RandShuffle")
			case "os.RemoveAll":
				r.stats["fs"]++
				n.Fun = r.rt("FSRemoveAll")
			case "os.Remove":
				r.stats["fs"]++
				n.Fun = r.rt("FSRemove")
			case "os.Rename":
				r.stats["fs"]++
				n.Fun = r.rt("FSRename")
			default:
				if strings.HasPrefix(p, "math/rand") && !strings.HasPrefix(f, "New") {
					r.stats["rand-unhandled:"+p+"."+f]++
				}
			}
			// (*os.File).Write in instrumented packages: short-write / kill-in-write fault point
			if sel, ok := n.Fun.(*ast.SelectorExpr); ok && sel.Sel.Name == "Write" && len(n.Args) == 1 {
				if ok, ptr := isNamed(r.typeOf(sel.X), "os", "File"); ok && ptr {
					r.stats["fs"]++
					c.Replace(r.call("FSWrite", sel.X, n.Args[0]))
				}
			}
			if sel, ok := n.Fun.(*ast.SelectorExpr); ok && sel.Sel.Name == "WriteAt" && len(n.Args) == 2 {
				if ok, ptr := isNamed(r.typeOf(sel.X), "os", "File"); ok && ptr {
					r.stats["fs"]++
					c.Replace(r.call("FSWriteAt", sel.X, n.Args[0], n.Args[1]))
				}
			}
		}
		return true
	})
}


// interpose renames function `name` of package pkgPath to zzOrig<name>; the
// generated companion file (see genFiles) defines the replacement.
func interpose(p *packages.Package, f *ast.File, stats map[string]int) bool {
	changed := false
	for _, d := range f.Decls {
		switch d := d.(type) {
		case *ast.FuncDecl:
			if d.Recv != nil {
				continue
			}
			key := p.PkgPath + "." + d.Name.Name
			if _, ok := interposed[key]; ok {
				d.Name = ast.NewIdent("zzOrig" + d.Name.Name)
				stats["interposed:"+key]++
				changed = true
			}
		case *ast.GenDecl:
			// const CHUNKSIZE = … in package cluster  ->  var CHUNKSIZE = zzsimrt.Knob("CHUNKSIZE", …)
			if d.Tok == token.CONST && strings.HasSuffix(p.PkgPath, "/cluster") && len(d.Specs) == 1 {
				vs := d.Specs[0].(*ast.ValueSpec)
				if len(vs.Names) == 1 && vs.Names[0].Name == "CHUNKSIZE" && len(vs.Values) == 1 && vs.Type == nil {
					d.Tok = token.VAR
					vs.Values[0] = &ast.CallExpr{Fun: &ast.SelectorExpr{X: ast.NewIdent("zzsimrt"), Sel: ast.NewIdent("KnobInit")},
						Args: []ast.Expr{&ast.BasicLit{Kind: token.STRING, Value: `"CHUNKSIZE"`}, vs.Values[0]}}
					stats["knob:CHUNKSIZE"]++
					changed = true
				}
			}
		}
	}
	return changed
}

// key -> (relative dir, generated source)
var interposed = map[string][2]string{
	"github.com/semafind/semadb/diskstore.Open": {"diskstore", `package diskstore

// generated by simgo: storage seam. The harness installs SimOpenHook to wrap
// the store returned by the original Open with its fault-injecting proxy.
var SimOpenHook func(path string, orig func(string) (DiskStore, error)) (DiskStore, error)

func Open(path string) (DiskStore, error) {
	if SimOpenHook != nil {
		return SimOpenHook(path, zzOrigOpen)
	}
	return zzOrigOpen(path)
}

// SimAbandon releases the file descriptor and the memory map of a bbolt-backed
// store without taking any of bbolt's locks. The harness calls it when a simulated
// run is over for stores that were never closed (tasks of a killed process are
// parked for ever inside their transactions, so Close would block).
func SimAbandon(ds DiskStore) {
	if b, ok := ds.(bboltDiskStore); ok && b.bboltDB != nil {
		b.bboltDB.SimAbandon()
	}
}
`},
	"github.com/semafind/semadb/distance.GetFloatDistanceFn": {"distance", `package distance

import "github.com/semafind/semadb/zzsimrt"

// generated by simgo: guards every float distance computation (C18: a vector whose
// length differs from the index dimension must never reach a distance kernel; the
// vectorised kernels read memory without bounds checks).
func GetFloatDistanceFn(name string) (FloatDistFunc, error) {
	fn, err := zzOrigGetFloatDistanceFn(name)
	if err != nil || !zzsimrt.Active() {
		return fn, err
	}
	return func(x, y []float32) float32 {
		if len(x) != len(y) {
			zzsimrt.Count("probe:distance-length-mismatch")
			return 0
		}
		return fn(x, y)
	}, nil
}
`},
	"github.com/semafind/semadb/cluster/mrpc.DialHTTP": {"cluster/mrpc", `package mrpc

import "net/rpc"

// generated by simgo: transport seam.
var SimDial func(network, address string) (*rpc.Client, error)

func DialHTTP(network, address string) (*rpc.Client, error) {
	if SimDial != nil {
		return SimDial(network, address)
	}
	return zzOrigDialHTTP(network, address)
}
`},
}

// extra generated files that only add exported accessors (no existing line changes)
var extraFiles = map[string]string{
	"httpapi/zz_sim_seam.go": `package httpapi

import (
	"net/http"

	"github.com/semafind/semadb/cluster"
)

// generated by simgo: gives the harness the real handler chain (requests enter
// through ServeHTTP; no listener is started).
func SetupRouterForSim(cnode *cluster.ClusterNode, cfg HttpApiConfig) http.Handler {
	return setupRouter(cnode, cfg, nil)
}
`,
}

func copyDir(src, dst string) {
	os.MkdirAll(dst, 0755)
	ents, err := os.ReadDir(src)
	if err != nil {
		panic(err)
	}
	for _, e := range ents {
		if e.IsDir() || !strings.HasSuffix(e.Name(), ".go") || strings.HasSuffix(e.Name(), "_test.go") {
			continue
		}
		b, err := os.ReadFile(filepath.Join(src, e.Name()))
		if err != nil {
			panic(err)
		}
		if err := os.WriteFile(filepath.Join(dst, e.Name()), b, 0644); err != nil {
			panic(err)
		}
	}
}

func main() {
	if len(os.Args) < 3 {
		fmt.Fprintln(os.Stderr, "usage: simgo <scratch-repo-root> <simrt-source-dir>")
		os.Exit(2)
	}
	root := os.Args[1]
	copyDir(os.Args[2], filepath.Join(root, "zzsimrt"))
	cfg := &packages.Config{Mode: packages.NeedName | packages.NeedFiles | packages.NeedCompiledGoFiles | packages.NeedSyntax | packages.NeedTypes | packages.NeedTypesInfo | packages.NeedImports | packages.NeedDeps, Dir: root}
	pkgs, err := packages.Load(cfg, "./...")
	if err != nil {
		fmt.Fprintln(os.Stderr, "simgo: load:", err)
		os.Exit(2)
	}
	stats := map[string]int{}
	bad := false
	for _, p := range pkgs {
		skip := false
		for _, s := range skipPkgs {
			if strings.Contains(p.PkgPath+"/", s) {
				skip = true
			}
		}
		if skip {
			continue
		}
		if len(p.Errors) > 0 {
			for _, e := range p.Errors {
				fmt.Fprintln(os.Stderr, "simgo: load error:", p.PkgPath, e)
			}
			bad = true
			continue
		}
		for i, f := range p.Syntax {
			r := &rewriter{pkg: p, fset: p.Fset, file: f, stats: stats}
			if stmtYieldPkg(p.PkgPath) {
				r.stmtYields()
			}
			r.apply()
			if interpose(p, f, stats) {
				r.used = true
			}
			if !r.used {
				continue
			}
			astutil.AddImport(p.Fset, f, rtPath)
			for _, imp := range []string{"runtime", "math/rand/v2", "time", "sync", "os"} {
				if !astutil.UsesImport(f, imp) {
					astutil.DeleteImport(p.Fset, f, imp)
				}
			}
			if !astutil.UsesImport(f, rtPath) {
				astutil.DeleteImport(p.Fset, f, rtPath)
			}
			var buf bytes.Buffer
			if err := format.Node(&buf, p.Fset, f); err != nil {
				fmt.Fprintln(os.Stderr, "simgo: format:", p.CompiledGoFiles[i], err)
				os.Exit(2)
			}
			if err := os.WriteFile(p.CompiledGoFiles[i], buf.Bytes(), 0644); err != nil {
				panic(err)
			}
		}
	}
	if bad {
		os.Exit(2)
	}
	for key, gen := range interposed {
		if stats["interposed:"+key] != 1 {
			fmt.Fprintf(os.Stderr, "simgo: seam %s not found exactly once (%d)\n", key, stats["interposed:"+key])
			os.Exit(2)
		}
		if err := os.WriteFile(filepath.Join(root, gen[0], "zz_sim_seam_"+key[strings.LastIndex(key, ".")+1:]+".go"), []byte(gen[1]), 0644); err != nil {
			panic(err)
		}
	}
	for rel, src := range extraFiles {
		if err := os.WriteFile(filepath.Join(root, rel), []byte(src), 0644); err != nil {
			panic(err)
		}
	}
	js, _ := json.MarshalIndent(stats, "", " ")
	os.WriteFile(filepath.Join(root, "zzsimrt", "instrument_stats.json"), js, 0644)
	fmt.Println(string(js))
}
