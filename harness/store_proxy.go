package harness

import (
	"os"
	"errors"
	"fmt"
	"strings"
	"runtime/debug"
	"sync"

	"github.com/semafind/semadb/diskstore"
	sim "github.com/semafind/semadb/zzsimrt"
	gofail "go.etcd.io/gofail/runtime"
)

// StoreFault is one storage fault or crash point of the fault plan. It is
// addressed relative to a workload operation (Batch) so that it stays
// meaningful when the schedule changes.
type StoreFault struct {
	Batch int    `json:"batch"` // index of the workload operation whose write transaction is targeted
	Kind  string `json:"kind"`  // put-err delete-err scan-err bucket-err commit-err diskfull meta-err kill-op kill-pre-commit kill-sync-data kill-sync-meta kill-post-commit kill-post-return
	K     int    `json:"k"`     // 1-based ordinal: among operations of that kind for *-err, among all storage operations for kill-op
}

var ErrInjected = errors.New("injected storage fault")

// killedPanic unwinds nothing: it is only used as the panic value of bbolt failpoints.
const failpointPanic = "failpoint panic"

// StoreWorld is the registry shared by all proxied stores of one run.
type StoreWorld struct {
	mu        sync.Mutex
	open      map[string]*ProxyStore // path -> open store
	armed     *StoreFault            // fault to fire inside the next write transaction
	fired     bool
	opCount   map[string]int // counts inside the current write transaction (for the dry run)
	lastTxOps map[string]int
	OnKill    func(reason string) // called in the dying task right before it is frozen
	// history hooks (C09): called in the writing task with the write lock held /
	// right after the storage commit succeeded, before any other task can run
	OnWriteLocked func()
	OnCommitted   func()
	Node      string
	Stats     map[string]int
	MmapNote  bool
	everOpened []*ProxyStore // every store of the run, for the clean-up in Uninstall
}

func NewStoreWorld() *StoreWorld {
	return &StoreWorld{open: map[string]*ProxyStore{}, opCount: map[string]int{}, Stats: map[string]int{}}
}

// Install makes diskstore.Open return proxied stores for the duration of a run.
func (w *StoreWorld) Install() {
	diskstore.SimOpenHook = func(path string, orig func(string) (diskstore.DiskStore, error)) (diskstore.DiskStore, error) {
		sim.Yield("store:open")
		w.mu.Lock()
		if path != "" {
			if prev := w.open[path]; prev != nil && !prev.closed {
				w.Stats["double-open"]++
				w.mu.Unlock()
				return nil, &DoubleOpenError{Path: path}
			}
		}
		w.mu.Unlock()
		inner, err := orig(path)
		if err != nil {
			return nil, err
		}
		p := &ProxyStore{inner: inner, path: path, w: w}
		w.mu.Lock()
		if path != "" {
			w.open[path] = p
		}
		w.everOpened = append(w.everOpened, p)
		w.Stats["open"]++
		w.mu.Unlock()
		return p, nil
	}
}

// Uninstall ends a run: the seam is removed and every store the run left open (its
// process was killed, or the run was cut short by a violation) gives back its file
// descriptor and memory map; no task of the finished run will ever be scheduled again.
func (w *StoreWorld) Uninstall() {
	diskstore.SimOpenHook = nil
	w.mu.Lock()
	for _, p := range w.everOpened {
		if !p.closed {
			diskstore.SimAbandon(p.inner)
		}
	}
	w.everOpened = nil
	w.mu.Unlock()
}

type DoubleOpenError struct{ Path string }

func (e *DoubleOpenError) Error() string { return "simulator: store opened twice at the same time: " + e.Path }

// Arm schedules a fault for the next write transaction.
func (w *StoreWorld) Arm(f *StoreFault) {
	w.mu.Lock()
	w.armed = f
	w.fired = false
	w.mu.Unlock()
}

func (w *StoreWorld) Fired() bool {
	w.mu.Lock()
	defer w.mu.Unlock()
	return w.fired
}

// LastTxOps returns the per-kind storage operation counts of the last finished write transaction.
func (w *StoreWorld) LastTxOps() map[string]int {
	w.mu.Lock()
	defer w.mu.Unlock()
	m := map[string]int{}
	for k, v := range detRange(w.lastTxOps) {
		m[k] = v
	}
	return m
}

func (w *StoreWorld) IsOpen(path string) bool {
	w.mu.Lock()
	defer w.mu.Unlock()
	p := w.open[path]
	return p != nil && !p.closed
}

// InUse reports whether a store below dir is open or has open transactions.
func (w *StoreWorld) OpenUnder(dir string) []string {
	w.mu.Lock()
	defer w.mu.Unlock()
	var out []string
	for path, p := range detRange(w.open) {
		if !p.closed && len(path) > len(dir) && path[:len(dir)] == dir {
			out = append(out, path)
		}
	}
	return out
}

func (w *StoreWorld) kill(reason string) {
	w.mu.Lock()
	w.fired = true
	w.Stats["kill:"+reason]++
	cb := w.OnKill
	w.mu.Unlock()
	sim.Count("fault:" + reason)
	if cb != nil {
		cb(reason)
	}
	sim.KillNode(w.Node) // never returns for a task of that node
}

// ---------------------------------------------------------------------------

type ProxyStore struct {
	inner  diskstore.DiskStore
	path   string
	w      *StoreWorld
	wlock  sim.SimLock
	openTx int
	closed bool
}

type txState struct {
	p        *ProxyStore
	writable bool
	ended    bool
	ops      map[string]int
	total    int
	// byte slices handed to the code under test during this transaction (bbolt only).
	// bbolt: "the returned value is only valid for the life of the transaction" — the
	// memory map behind it may be remapped or its page reused as soon as the
	// transaction is over. The proxy hands out copies and overwrites them when the
	// transaction ends, which is the worst the contract allows, every time: code that
	// keeps such a slice reads garbage deterministically instead of once in a while.
	lent [][]byte
}

const poisonByte = 0xDB

func (tx *txState) lend(v []byte) []byte {
	if v == nil || tx.p.path == "" || !PoisonLentSlices {
		return v
	}
	c := make([]byte, len(v))
	copy(c, v)
	tx.lent = append(tx.lent, c)
	return c
}

func (tx *txState) lendFn(f func(k, v []byte) error) func(k, v []byte) error {
	return func(k, v []byte) error { return f(tx.lend(k), tx.lend(v)) }
}

// finish marks the transaction as over and poisons everything it lent.
func (tx *txState) finish() {
	tx.ended = true
	for _, b := range tx.lent {
		for i := range b {
			b[i] = poisonByte
		}
	}
	if len(tx.lent) > 0 {
		sim.CountN("store:slices-poisoned", len(tx.lent))
	}
	tx.lent = nil
}

// PoisonLentSlices can be switched off for an experiment (SIM_NO_POISON=1).
var PoisonLentSlices = os.Getenv("SIM_NO_POISON") == ""

func (p *ProxyStore) Path() string { return p.inner.Path() }

func (p *ProxyStore) begin() {
	p.w.mu.Lock()
	p.openTx++
	p.w.mu.Unlock()
}

func (p *ProxyStore) end() {
	p.w.mu.Lock()
	p.openTx--
	p.w.mu.Unlock()
	sim.Signal(p)
}

func (p *ProxyStore) Read(f func(diskstore.BucketManager) error) error {
	sim.Yield("store:read-begin")
	if p.closed {
		p.w.mu.Lock()
		p.w.Stats["use-after-close"]++
		p.w.mu.Unlock()
		sim.Count("probe:store-use-after-close")
	}
	p.begin()
	defer p.end()
	tx := &txState{p: p, ops: map[string]int{}}
	err := p.inner.Read(func(bm diskstore.BucketManager) error {
		return f(&proxyBM{inner: bm, tx: tx})
	})
	tx.finish()
	sim.Yield("store:read-end")
	return err
}

func (p *ProxyStore) Write(f func(diskstore.BucketManager) error) (err error) {
	// bbolt's writer lock is a plain mutex (not a durable block for the
	// simulator): serialise writers here, with a simulation-aware lock.
	p.wlock.Lock("store:write-lock")
	defer p.wlock.Unlock("store:write-unlock")
	if p.closed {
		p.w.mu.Lock()
		p.w.Stats["use-after-close"]++
		p.w.mu.Unlock()
		sim.Count("probe:store-use-after-close")
	}
	p.begin()
	defer p.end()
	w := p.w
	if w.OnWriteLocked != nil {
		w.OnWriteLocked()
	}
	tx := &txState{p: p, writable: true, ops: map[string]int{}}
	w.mu.Lock()
	armed := w.armed
	w.mu.Unlock()
	var fpName string
	if armed != nil && !w.Fired() {
		switch armed.Kind {
		case "diskfull":
			fpName = "lackOfDiskSpace"
			gofail.Enable(fpName, `return("injected: no space left on device")`)
		case "meta-err":
			fpName = "beforeWriteMetaError"
			gofail.Enable(fpName, `return("injected: meta page write failed")`)
		case "kill-sync-data":
			fpName = "beforeSyncDataPages"
			gofail.Enable(fpName, `panic("`+failpointPanic+`")`)
		case "kill-sync-meta":
			fpName = "beforeSyncMetaPage"
			gofail.Enable(fpName, `panic("`+failpointPanic+`")`)
		}
	}
	userReturned := false
	var userErr error
	func() {
		defer func() {
			if fpName != "" {
				gofail.Disable(fpName)
			}
			if r := recover(); r != nil {
				if s, ok := r.(string); ok && strings.Contains(s, failpointPanic) {
					w.kill(armed.Kind) // frozen for ever
				}
				panic(r)
			}
		}()
		err = p.inner.Write(func(bm diskstore.BucketManager) error {
			e := f(&proxyBM{inner: bm, tx: tx})
			userReturned = true
			userErr = e
			if e != nil {
				return e
			}
			sim.Yield("store:pre-commit")
			if a := tx.armedFor("commit-err"); a != nil {
				tx.fire("commit-err")
				return fmt.Errorf("commit failed: %w", ErrInjected)
			}
			if a := tx.armedFor("kill-pre-commit"); a != nil {
				w.kill("kill-pre-commit")
			}
			return nil
		})
	}()
	tx.finish()
	_ = userReturned
	w.mu.Lock()
	w.lastTxOps = tx.ops
	w.lastTxOps["total"] = tx.total
	if fpName != "" && err != nil && userErr == nil {
		// the failpoint made the commit fail
		w.fired = true
		w.Stats["fault:"+armed.Kind]++
	}
	w.mu.Unlock()
	if fpName != "" && err != nil && userErr == nil {
		sim.Count("fault:" + armed.Kind)
	}
	if err == nil {
		if w.OnCommitted != nil {
			w.OnCommitted()
		}
		sim.Count("store:commit")
		if a := tx.armedFor("kill-post-commit"); a != nil {
			w.kill("kill-post-commit")
		}
	}
	sim.Yield("store:post-commit")
	return err
}

func (p *ProxyStore) BackupToFile(path string) error {
	sim.Yield("store:backup")
	return p.inner.BackupToFile(path)
}

func (p *ProxyStore) SizeInBytes() (int64, error) {
	sim.Yield("store:size")
	if p.closed {
		sim.Count("probe:store-use-after-close")
	}
	p.begin()
	defer p.end()
	return p.inner.SizeInBytes()
}

func (p *ProxyStore) Close() error {
	sim.Yield("store:close")
	// bbolt's Close waits for open transactions on a plain mutex; wait simulation-aware instead.
	sim.WaitUntil("store:close-wait", p, func() bool {
		p.w.mu.Lock()
		defer p.w.mu.Unlock()
		return p.openTx == 0
	})
	p.w.mu.Lock()
	already := p.closed
	p.closed = true
	if p.w.open[p.path] == p {
		delete(p.w.open, p.path)
	}
	p.w.Stats["close"]++
	p.w.mu.Unlock()
	if already {
		sim.Count("probe:store-double-close")
	}
	return p.inner.Close()
}

// ---------------------------------------------------------------------------

func (tx *txState) armedFor(kind string) *StoreFault {
	if !tx.writable {
		return nil
	}
	w := tx.p.w
	w.mu.Lock()
	defer w.mu.Unlock()
	if w.armed != nil && !w.fired && w.armed.Kind == kind {
		return w.armed
	}
	return nil
}

func (tx *txState) fire(kind string) {
	w := tx.p.w
	w.mu.Lock()
	w.fired = true
	w.Stats["fault:"+kind]++
	w.mu.Unlock()
	sim.Count("fault:" + kind)
}

// op is called at every storage operation: scheduling point, accounting, faults,
// and detection of handles that outlive their transaction.
func (tx *txState) op(kind string) error {
	sim.Yield("store:" + kind)
	if tx.ended {
		sim.Count("probe:bucket-use-after-tx-end")
		tx.p.w.mu.Lock()
		tx.p.w.Stats["use-after-tx-end"]++
		tx.p.w.mu.Unlock()
	}
	if !tx.writable {
		return nil
	}
	tx.ops[kind]++
	tx.total++
	if a := tx.armedFor("kill-op"); a != nil && tx.total == a.K {
		tx.p.w.kill("kill-op")
	}
	if a := tx.armedFor(kind + "-err"); a != nil && tx.ops[kind] == a.K {
		tx.fire(kind + "-err")
		return fmt.Errorf("%s #%d: %w", kind, a.K, ErrInjected)
	}
	return nil
}

// guard forwards a call on a handle whose transaction may have ended: whatever
// the real store does then (error, garbage, nil dereference, fault on unmapped
// memory) is what production would do; a panic is recorded as a crash.
//
// bbolt only survives a read (Get, cursor scan) through a bucket of a closed transaction
// when the bucket is still inline in its parent's page (less than a quarter page of data,
// which the small histories of a simulated run rarely exceed); a bucket with pages of its
// own dereferences the closed transaction (tx.db == nil) and the process dies. Like the
// poisoning of lent slices, the proxy makes the worst case the contract allows happen every
// time: such a read is a crash whether or not this bucket happened to be inline.
// Put / Delete / ForEach check for a closed transaction themselves and return an error.
func (tx *txState) guard(what string, f func()) {
	if !tx.ended {
		f()
		return
	}
	defer func() {
		if r := recover(); r != nil {
			sim.RecordCrash(fmt.Sprintf("storage handle used after its transaction ended (%s): %v", what, r), debug.Stack())
			// the goroutine would have crashed the process here
			panic(r)
		}
	}()
	f()
	if tx.p.path != "" && StrictClosedTxReads && (what == "Bucket.Get" || what == "Bucket.PrefixScan" || what == "Bucket.RangeScan") {
		sim.Count("probe:closed-tx-read-on-inline-bucket")
		panic("invalid memory address or nil pointer dereference (simulated: bbolt reads a bucket that has pages of its own through the closed transaction; this bucket was still inline)")
	}
}

// StrictClosedTxReads can be switched off for an experiment (SIM_LENIENT_CLOSED_TX=1).
var StrictClosedTxReads = os.Getenv("SIM_LENIENT_CLOSED_TX") == ""

type proxyBM struct {
	inner diskstore.BucketManager
	tx    *txState
}

func (bm *proxyBM) Get(name string) (b diskstore.Bucket, err error) {
	if e := bm.tx.op("bucket"); e != nil {
		return nil, e
	}
	bm.tx.guard("BucketManager.Get", func() { b, err = bm.inner.Get(name) })
	if err != nil {
		return nil, err
	}
	return &proxyBucket{inner: b, tx: bm.tx, name: name}, nil
}

func (bm *proxyBM) Delete(name string) (err error) {
	if e := bm.tx.op("bucket"); e != nil {
		return e
	}
	bm.tx.guard("BucketManager.Delete", func() { err = bm.inner.Delete(name) })
	return
}

type proxyBucket struct {
	inner diskstore.Bucket
	tx    *txState
	name  string
}

func (b *proxyBucket) IsReadOnly() bool { return b.inner.IsReadOnly() }

func (b *proxyBucket) Get(k []byte) (v []byte) {
	b.tx.op("get")
	b.tx.guard("Bucket.Get", func() { v = b.inner.Get(k) })
	return b.tx.lend(v)
}

func (b *proxyBucket) Put(k, v []byte) (err error) {
	if e := b.tx.op("put"); e != nil {
		return e
	}
	b.tx.guard("Bucket.Put", func() { err = b.inner.Put(k, v) })
	return
}

func (b *proxyBucket) Delete(k []byte) (err error) {
	if e := b.tx.op("delete"); e != nil {
		return e
	}
	b.tx.guard("Bucket.Delete", func() { err = b.inner.Delete(k) })
	return
}

func (b *proxyBucket) ForEach(f func(k, v []byte) error) (err error) {
	if e := b.tx.op("scan"); e != nil {
		return e
	}
	b.tx.guard("Bucket.ForEach", func() { err = b.inner.ForEach(b.tx.lendFn(f)) })
	return
}

func (b *proxyBucket) PrefixScan(prefix []byte, f func(k, v []byte) error) (err error) {
	if e := b.tx.op("scan"); e != nil {
		return e
	}
	b.tx.guard("Bucket.PrefixScan", func() { err = b.inner.PrefixScan(prefix, b.tx.lendFn(f)) })
	return
}

func (b *proxyBucket) RangeScan(start, end []byte, inclusive bool, f func(k, v []byte) error) (err error) {
	if e := b.tx.op("scan"); e != nil {
		return e
	}
	b.tx.guard("Bucket.RangeScan", func() { err = b.inner.RangeScan(start, end, inclusive, b.tx.lendFn(f)) })
	return
}
