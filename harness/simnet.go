package harness

import (
	"fmt"
	"io"
	"math/rand/v2"
	"net"
	"net/rpc"
	"reflect"
	"strings"
	"sync"
	"time"

	"github.com/google/uuid"
	"github.com/semafind/semadb/cluster"
	"github.com/semafind/semadb/cluster/mrpc"
	sim "github.com/semafind/semadb/zzsimrt"
)

// SimNet is the simulated transport between cluster nodes: mrpc.DialHTTP is
// redirected to it. Both ends use semadb's real msgpack codec; the client side
// is the standard net/rpc client, the server side is a small reflection
// dispatcher (one simulator task per connection and per request) standing in
// for net/rpc's server loop, so that request handlers are first-class tasks that
// can be scheduled, stalled and killed. Delivery of every stream segment is a
// scheduler event; segments of one direction stay in order (it is a TCP stream).

type halfPipe struct {
	mu      sync.Mutex
	cond    *sync.Cond
	buf     []byte
	closed  bool
	queue   [][]byte // sent, not yet delivered
	pending bool     // a delivery event for the head of queue is registered
	id      string
	net     *SimNet
}

func newHalf(n *SimNet, id string) *halfPipe {
	h := &halfPipe{id: id, net: n}
	h.cond = sync.NewCond(&h.mu)
	return h
}

func (h *halfPipe) read(p []byte) (int, error) {
	h.mu.Lock()
	defer h.mu.Unlock()
	for len(h.buf) == 0 && !h.closed {
		h.cond.Wait() // durably blocking inside the bubble
	}
	if len(h.buf) == 0 {
		return 0, io.EOF
	}
	n := copy(p, h.buf)
	h.buf = h.buf[n:]
	return n, nil
}

func (h *halfPipe) send(p []byte) (int, error) {
	h.mu.Lock()
	if h.closed {
		h.mu.Unlock()
		return 0, io.ErrClosedPipe
	}
	h.queue = append(h.queue, append([]byte(nil), p...))
	need := !h.pending
	h.pending = true
	h.mu.Unlock()
	h.net.count("segments-sent", 1)
	if need {
		h.register()
	}
	return len(p), nil
}

func (h *halfPipe) register() {
	sim.AddEvent("net:deliver:"+h.id, func() {
		h.mu.Lock()
		if len(h.queue) > 0 && !h.closed {
			h.buf = append(h.buf, h.queue[0]...)
			h.queue = h.queue[1:]
		}
		more := len(h.queue) > 0 && !h.closed
		h.pending = more
		h.cond.Broadcast()
		h.mu.Unlock()
		if more {
			h.register()
		}
	})
}

func (h *halfPipe) close() {
	h.mu.Lock()
	h.closed = true
	h.queue = nil
	h.cond.Broadcast()
	h.mu.Unlock()
}

type simConn struct {
	rd, wr     *halfPipe
	from, to   string
	serverSide bool
}

func (c *simConn) Read(p []byte) (int, error)  { return c.rd.read(p) }
func (c *simConn) Write(p []byte) (int, error) { return c.wr.send(p) }
func (c *simConn) Close() error {
	c.rd.close()
	c.wr.close()
	return nil
}
func (c *simConn) LocalAddr() net.Addr                { return nil }
func (c *simConn) RemoteAddr() net.Addr               { return nil }
func (c *simConn) SetDeadline(t time.Time) error      { return nil }
func (c *simConn) SetReadDeadline(t time.Time) error  { return nil }
func (c *simConn) SetWriteDeadline(t time.Time) error { return nil }

// NetFault is one transport / process fault of the plan, addressed by RPC
// method and occurrence at the receiving node (stable under schedule changes).
type NetFault struct {
	Kind   string `json:"kind"`   // refuse | error-before | hang | reset-before | reset-after | stall | kill-receiver-before | kill-receiver-after | kill-sender
	Method string `json:"method"` // e.g. RPCSendShard ("" = any)
	Node   string `json:"node"`   // receiving node address ("" = any)
	Nth    int    `json:"nth"`    // 1-based occurrence of (Method at Node)
	Chunk  int    `json:"chunk"`  // RPCSendShard only: chunk index to match (-1 = any)
	fired  bool
	anyNode bool // Nth counts occurrences of Method over all nodes
	sticky  bool // stays armed after firing (every matching request is hit)
}

type simNode struct {
	addr    string
	tag     string
	node    *cluster.ClusterNode
	up      bool
	methods map[string]reflect.Method
	conns   []*simConn
}

type SimNet struct {
	mu       sync.Mutex
	nodes    map[string]*simNode
	faults   []*NetFault
	seen     map[string]int // method@node -> count
	stats    map[string]int
	connSeq  int
	stallSec int
	OnKill   func(addr string) // harness callback: the process at addr must die now (called in the handler task)
}

func NewSimNet(faults []NetFault, stallSec int) *SimNet {
	n := &SimNet{nodes: map[string]*simNode{}, seen: map[string]int{}, stats: map[string]int{}, stallSec: stallSec}
	for i := range faults {
		f := faults[i]
		n.faults = append(n.faults, &f)
	}
	return n
}

func (n *SimNet) count(k string, d int) {
	n.mu.Lock()
	n.stats[k] += d
	n.mu.Unlock()
}

func (n *SimNet) Install()   { mrpc.SimDial = n.dial }
func (n *SimNet) Uninstall() { mrpc.SimDial = nil }

// Register makes a node reachable under its address.
func (n *SimNet) Register(addr, tag string, node *cluster.ClusterNode) {
	ms := map[string]reflect.Method{}
	t := reflect.TypeOf(node)
	for i := 0; i < t.NumMethod(); i++ {
		m := t.Method(i)
		if strings.HasPrefix(m.Name, "RPC") && m.Type.NumIn() == 3 && m.Type.NumOut() == 1 {
			ms["ClusterNode."+m.Name] = m
		}
	}
	n.mu.Lock()
	n.nodes[addr] = &simNode{addr: addr, tag: tag, node: node, up: true, methods: ms}
	n.mu.Unlock()
}

// Down makes a node unreachable and resets all its connections (process death or clean stop).
func (n *SimNet) Down(addr string) {
	n.mu.Lock()
	sn := n.nodes[addr]
	var conns []*simConn
	if sn != nil {
		sn.up = false
		conns = sn.conns
		sn.conns = nil
	}
	// connections opened by this node to others
	for _, o := range detRange(n.nodes) {
		var keep []*simConn
		for _, c := range o.conns {
			if c.from == addr || c.to == addr {
				conns = append(conns, c)
			} else {
				keep = append(keep, c)
			}
		}
		o.conns = keep
	}
	n.mu.Unlock()
	for _, c := range conns {
		c.Close()
	}
}

// ResetIdleConns drops every established connection while all nodes stay up (an
// idle TCP connection reset by a middlebox). Call it only while no request is in
// flight: the cached rpc clients then find their connection dead on next use.
func (n *SimNet) ResetIdleConns() int {
	n.mu.Lock()
	var conns []*simConn
	for _, o := range detRange(n.nodes) {
		conns = append(conns, o.conns...)
		o.conns = nil
	}
	n.stats["idle-conn-reset"] += len(conns) / 2
	n.mu.Unlock()
	for i := 0; i < len(conns)/2; i++ {
		sim.Count("fault:idle-conn-reset")
	}
	for _, c := range conns {
		c.Close()
	}
	return len(conns) / 2
}

func (n *SimNet) dial(network, address string) (*rpc.Client, error) {
	sim.Yield("net:dial")
	from := sim.CurrentNode()
	n.mu.Lock()
	sn := n.nodes[address]
	if sn == nil || !sn.up {
		n.stats["dial-refused"]++
		n.mu.Unlock()
		sim.Count("fault:dial-refused")
		return nil, fmt.Errorf("dial tcp %s: connect: connection refused", address)
	}
	n.connSeq++
	id := fmt.Sprintf("c%d", n.connSeq)
	a, b := newHalf(n, id+">"), newHalf(n, id+"<")
	cc := &simConn{rd: b, wr: a, from: from, to: address}
	sc := &simConn{rd: a, wr: b, from: from, to: address, serverSide: true}
	sn.conns = append(sn.conns, cc, sc)
	n.stats["connections"]++
	n.mu.Unlock()
	sim.Go("simnet:serve", func() { n.serve(sn, sc) })
	return rpc.NewClientWithCodec(mrpc.NewMsgpackCodec(cc)), nil
}

// matchFault finds the armed fault for this request, if any.
func (n *SimNet) matchFault(sn *simNode, method string, arg any, phase string) *NetFault {
	short := strings.TrimPrefix(method, "ClusterNode.")
	n.mu.Lock()
	defer n.mu.Unlock()
	var nth int
	if phase == "before" {
		n.seen[short+"@"+sn.addr]++
		n.seen[short+"@*"]++
	}
	nth = n.seen[short+"@"+sn.addr]
	nthAny := n.seen[short+"@*"]
	chunk := -1
	if r, ok := arg.(*cluster.RPCSendShardRequest); ok {
		chunk = r.ChunkIndex
	}
	for _, f := range n.faults {
		if f.fired {
			continue
		}
		if f.Method != "" && f.Method != short {
			continue
		}
		if f.Node != "" && f.Node != sn.addr {
			continue
		}
		if short == "RPCSendShard" && f.Chunk >= 0 {
			if f.Chunk != chunk {
				continue
			}
		} else if f.anyNode {
			if f.Nth != nthAny {
				continue
			}
		} else if f.Nth > 0 && f.Nth != nth {
			continue
		}
		after := f.Kind == "reset-after" || f.Kind == "kill-receiver-after"
		if after != (phase == "after") {
			continue
		}
		if !f.sticky {
			f.fired = true
		}
		n.stats["fault:"+f.Kind]++
		return f
	}
	return nil
}

// serve is the per-connection server loop (stands in for net/rpc's ServeCodec).
func (n *SimNet) serve(sn *simNode, conn *simConn) {
	sim.SetNode(sn.tag)
	codec := mrpc.NewMsgpackCodec(conn)
	var wlock sim.SimLock
	for {
		var req rpc.Request
		if err := codec.ReadRequestHeader(&req); err != nil {
			return
		}
		m, ok := sn.methods[req.ServiceMethod]
		if !ok {
			conn.Close()
			return
		}
		argv := reflect.New(m.Type.In(1).Elem())
		if err := codec.ReadRequestBody(argv.Interface()); err != nil {
			return
		}
		sim.Woke("simnet:server-recv")
		method, seq := req.ServiceMethod, req.Seq
		sim.Go("simnet:handler", func() {
			sim.Count("rpc:" + strings.TrimPrefix(method, "ClusterNode."))
			if f := n.matchFault(sn, method, argv.Interface(), "before"); f != nil {
				sim.Count("fault:" + f.Kind)
				switch f.Kind {
				case "reset-before":
					conn.Close()
					return
				case "error-before":
					// a clean refusal of this one request: answered with an error, not executed
					resp := rpc.Response{ServiceMethod: method, Seq: seq, Error: "injected: shard server cannot serve the request"}
					wlock.Lock("simnet:write-response")
					codec.WriteResponse(&resp, struct{}{})
					wlock.Unlock("simnet:write-response")
					return
				case "stall":
					sim.Sleep(time.Duration(n.stallSec) * time.Second)
				case "slow":
					// answered correctly, but only after two seconds (well inside the rpc timeout)
					sim.Sleep(2 * time.Second)
				case "hang":
					// the server never answers and never executes the request (a hung process)
					sim.Sleep(1000 * time.Hour)
					return
				case "kill-receiver-before":
					n.kill(sn.addr)
					return
				case "kill-sender":
					if src := argSource(argv.Interface()); src != "" && src != sn.addr {
						n.kill(src)
					}
				}
			}
			replyv := reflect.New(m.Type.In(2).Elem())
			out := m.Func.Call([]reflect.Value{reflect.ValueOf(sn.node), argv, replyv})
			if f := n.matchFault(sn, method, argv.Interface(), "after"); f != nil {
				sim.Count("fault:" + f.Kind)
				switch f.Kind {
				case "reset-after":
					conn.Close()
					return
				case "kill-receiver-after":
					n.kill(sn.addr)
					return
				}
			}
			resp := rpc.Response{ServiceMethod: method, Seq: seq}
			var body any = replyv.Interface()
			if errv := out[0].Interface(); errv != nil {
				resp.Error = errv.(error).Error()
				body = struct{}{}
			}
			wlock.Lock("simnet:write-response")
			codec.WriteResponse(&resp, body)
			wlock.Unlock("simnet:write-response")
		})
	}
}

// seenTotal: how many requests of a method have been received by all nodes so far. Caller holds n.mu.
func (n *SimNet) seenTotal(method string) int { return n.seen[method+"@*"] }

func argSource(arg any) string {
	v := reflect.ValueOf(arg)
	if v.Kind() == reflect.Ptr {
		v = v.Elem()
	}
	if f := v.FieldByName("Source"); f.IsValid() && f.Kind() == reflect.String {
		return f.String()
	}
	return ""
}

// kill: process death of the node at addr, decided inside a request handler.
func (n *SimNet) kill(addr string) {
	n.mu.Lock()
	sn := n.nodes[addr]
	cb := n.OnKill
	n.mu.Unlock()
	if sn == nil {
		return
	}
	n.Down(addr)
	if cb != nil {
		cb(addr)
	}
	sim.KillNode(sn.tag) // freezes every task of that process; does not return if the caller is one of them
}

// seededUUIDs makes uuid.New deterministic for the run.
type detRand struct{ r *rand.ChaCha8 }

func (d detRand) Read(p []byte) (int, error) { return d.r.Read(p) }

func seedUUIDs(seed uint64) {
	var s [32]byte
	for i := 0; i < 8; i++ {
		s[i] = byte(seed >> (8 * i))
	}
	uuid.SetRand(detRand{rand.NewChaCha8(s)})
}
