package harness

import (
	"encoding/binary"
	"fmt"
	"math"
	"sort"

	"github.com/google/uuid"
	"github.com/semafind/semadb/models"
)

// Reference distances, computed in float64 from the definitions in C04/C20.

func refFloatDistance(metric string, x, y []float32) (float64, error) {
	switch metric {
	case models.DistanceEuclidean:
		s := 0.0
		for i := range x {
			d := float64(x[i]) - float64(y[i])
			s += d * d
		}
		return s, nil
	case models.DistanceDot:
		s := 0.0
		for i := range x {
			s += float64(x[i]) * float64(y[i])
		}
		return -s, nil
	case models.DistanceCosine:
		// vectors are generated unit-normalised: cosine distance = 1 - <x,y>
		s := 0.0
		for i := range x {
			s += float64(x[i]) * float64(y[i])
		}
		return 1 - s, nil
	case models.DistanceHaversine:
		const rad = math.Pi / 180
		const earth = 6371000.0
		la1, lo1, la2, lo2 := float64(x[0])*rad, float64(x[1])*rad, float64(y[0])*rad, float64(y[1])*rad
		a := math.Pow(math.Sin((la1-la2)/2), 2) + math.Cos(la1)*math.Cos(la2)*math.Pow(math.Sin((lo1-lo2)/2), 2)
		return 2 * earth * math.Asin(math.Min(1, math.Sqrt(a))), nil
	}
	return 0, fmt.Errorf("no float metric %s", metric)
}

func refBitDistance(metric string, x, y []float32, threshold []float32) (float64, error) {
	inter, union, diff := 0, 0, 0
	for i := range x {
		a, b := x[i] > threshold[i], y[i] > threshold[i]
		if a && b {
			inter++
		}
		if a || b {
			union++
		}
		if a != b {
			diff++
		}
	}
	switch metric {
	case models.DistanceHamming:
		return float64(diff), nil
	case models.DistanceJaccard:
		if union == 0 {
			return 0, nil
		}
		return 1 - float64(inter)/float64(union), nil
	}
	return 0, fmt.Errorf("no bit metric %s", metric)
}

// VecMode says which distance an index must report right now.
type VecMode struct {
	Float     string    // float metric, or ""
	Bit       string    // bit metric once thresholded, or ""
	Threshold []float32 // per-dimension threshold for Bit
	Opaque    bool      // quantised form the model cannot recompute (no committed file to read it from): validity checks only
	PQ        *PQMode   // trained product quantiser: distance = sum over sub-vectors of metric(query part, centroid of the stored code)
}

// PQMode is the persisted state of a trained product quantiser, read from the
// committed file: the centroids and, per live point, the stored code.
type PQMode struct {
	NumSub, NumCent, SubLen int
	Metric                  string // metric applied per sub-vector
	Centroids               []float32
	Codes                   map[uuid.UUID][]byte
	Problem                 string // structural defect of the persisted state ("" = none)
}

func (pq *PQMode) centroid(sub, c int) []float32 {
	start := sub*pq.NumCent*pq.SubLen + c*pq.SubLen
	return pq.Centroids[start : start+pq.SubLen]
}

// distance also returns the magnitude of the summed terms: centroids are means (arbitrary
// float32 values), so the float32 sum of the implementation carries a rounding error
// proportional to that magnitude, not to the (possibly cancelling) result.
func (pq *PQMode) distance(q []float32, code []byte) (float64, float64, error) {
	total, mag := 0.0, 0.0
	for i := 0; i < pq.NumSub; i++ {
		qs, c := q[i*pq.SubLen:(i+1)*pq.SubLen], pq.centroid(i, int(code[i]))
		d, err := refFloatDistance(pq.Metric, qs, c)
		if err != nil {
			return 0, 0, err
		}
		total += d
		for k := range qs {
			switch pq.Metric {
			case models.DistanceEuclidean:
				mag += float64(qs[k])*float64(qs[k]) + float64(c[k])*float64(c[k])
			default:
				mag += math.Abs(float64(qs[k]) * float64(c[k]))
			}
		}
	}
	return total, mag, nil
}

// pqAbsTol: extra absolute tolerance per candidate of the last VectorCandidates call
// (nil unless a product quantiser is in force); used by CheckValidRanked / CheckExactTopK.
var pqAbsTol map[uuid.UUID]float64

func closeV(id uuid.UUID, a, b float64) bool {
	return closeF(a, b) || math.Abs(a-b) <= pqAbsTol[id]
}

// pqEffectiveMetric: what the product quantiser is documented to apply per
// sub-vector (product.go: cosine cannot be handled part-wise and is replaced).
func pqEffectiveMetric(metric string) string {
	if metric == models.DistanceCosine {
		return models.DistanceEuclidean
	}
	return metric
}

// uuidNodeMap reads point uuid -> node id from the points bucket of a dump.
func uuidNodeMap(d Dump) map[uuid.UUID]uint64 {
	out := map[uuid.UUID]uint64{}
	for k, v := range detRange(d["points"]) {
		if len(k) == 18 && k[0] == 'p' && k[17] == 'i' && len(v) == 8 {
			var u uuid.UUID
			copy(u[:], k[1:17])
			out[u] = binary.LittleEndian.Uint64(v)
		}
	}
	return out
}

// vectorModeDump is vectorMode with the whole committed file at hand, so that a
// trained product quantiser can be recomputed too.
func vectorModeDump(dim int, metric string, q *models.Quantizer, d Dump, bucketName string) VecMode {
	var bucket map[string][]byte
	if d != nil {
		bucket = d[bucketName]
	}
	vm := vectorMode(dim, metric, q, bucket)
	if !vm.Opaque || d == nil {
		return vm
	}
	pp := q.Product
	pq := &PQMode{NumSub: pp.NumSubVectors, NumCent: pp.NumCentroids, SubLen: dim / pp.NumSubVectors, Metric: pqEffectiveMetric(metric), Codes: map[uuid.UUID][]byte{}}
	raw := bucket["_productQuantizerFlatCentroids"]
	if len(raw) != 4*pq.NumSub*pq.NumCent*pq.SubLen {
		pq.Problem = fmt.Sprintf("persisted centroids hold %d bytes, expected %d sub-vectors x %d centroids x %d floats", len(raw), pq.NumSub, pq.NumCent, pq.SubLen)
		return VecMode{PQ: pq}
	}
	pq.Centroids = make([]float32, len(raw)/4)
	for i := range pq.Centroids {
		pq.Centroids[i] = math.Float32frombits(binary.LittleEndian.Uint32(raw[4*i:]))
		if f := float64(pq.Centroids[i]); math.IsNaN(f) || math.IsInf(f, 0) {
			pq.Problem = fmt.Sprintf("persisted centroid component %d is %g", i, f)
		}
	}
	for u, nid := range detRange(uuidNodeMap(d)) {
		code, ok := bucket[nodeKey(nid, 'q')]
		if !ok {
			continue
		}
		if len(code) != pq.NumSub {
			pq.Problem = fmt.Sprintf("point %d: stored code has %d entries, expected %d", PIDIndex(u), len(code), pq.NumSub)
			continue
		}
		for _, c := range code {
			if int(c) >= pq.NumCent {
				pq.Problem = fmt.Sprintf("point %d: stored code %v names centroid %d of %d", PIDIndex(u), code, c, pq.NumCent)
			}
		}
		pq.Codes[u] = code
	}
	return VecMode{PQ: pq}
}

// CheckPQ: with a trained product quantiser every live point that carries the
// vector must have a well-formed stored code, and the code of a point whose
// vector was written after training (fresh) must name, per sub-vector, a
// centroid that is nearest under the applied metric (ties and rounding tolerated).
func (m *RefShard) CheckPQ(prop string, dim int, vm VecMode, fresh map[uuid.UUID]bool) string {
	pq := vm.PQ
	if pq == nil {
		return ""
	}
	if pq.Problem != "" {
		return pq.Problem
	}
	for id, d := range detRange(m.Docs) {
		v, ok := docVector(d, prop, dim)
		if !ok {
			continue
		}
		code, ok := pq.Codes[id]
		if !ok {
			return fmt.Sprintf("point %d carries the vector but has no stored code although the quantiser is trained", PIDIndex(id))
		}
		if !fresh[id] {
			continue
		}
		for i := 0; i < pq.NumSub; i++ {
			sub := v[i*pq.SubLen : (i+1)*pq.SubLen]
			best := math.Inf(1)
			for c := 0; c < pq.NumCent; c++ {
				dd, _ := refFloatDistance(pq.Metric, sub, pq.centroid(i, c))
				best = math.Min(best, dd)
			}
			got, _ := refFloatDistance(pq.Metric, sub, pq.centroid(i, int(code[i])))
			mag := 0.0 // the implementation picks the centroid in float32: allow its rounding
			for k := range sub {
				for c := 0; c < pq.NumCent; c++ {
					ck := float64(pq.centroid(i, c)[k])
					mag = math.Max(mag, float64(sub[k])*float64(sub[k])+ck*ck)
				}
			}
			if got > best && !closeF(got, best) && got-best > 4e-6*mag*float64(len(sub)) {
				return fmt.Sprintf("point %d written after training: sub-vector %d %v is coded as centroid %d (distance %g) but the nearest centroid is at %g", PIDIndex(id), i, sub, code[i], got, best)
			}
		}
	}
	return ""
}

func constThreshold(dim int, t float32) []float32 {
	out := make([]float32, dim)
	for i := range out {
		out[i] = t
	}
	return out
}

// vectorMode derives the distance in force from the index parameters and the
// persisted quantiser state (bucket dump of the committed file; nil for none).
func vectorMode(dim int, metric string, q *models.Quantizer, bucket map[string][]byte) VecMode {
	if metric == models.DistanceHamming || metric == models.DistanceJaccard {
		return VecMode{Bit: metric, Threshold: constThreshold(dim, 0.5)}
	}
	if q == nil || q.Type == models.QuantizerNone {
		return VecMode{Float: metric}
	}
	switch q.Type {
	case models.QuantizerBinary:
		if q.Binary.Threshold != nil {
			return VecMode{Bit: q.Binary.DistanceMetric, Threshold: constThreshold(dim, *q.Binary.Threshold)}
		}
		if raw, ok := bucket["_binaryQuantizerThreshold"]; ok && len(raw) == 4*dim {
			th := make([]float32, dim)
			for i := range th {
				th[i] = math.Float32frombits(binary.LittleEndian.Uint32(raw[4*i:]))
			}
			return VecMode{Bit: q.Binary.DistanceMetric, Threshold: th}
		}
		return VecMode{Float: metric}
	case models.QuantizerProduct:
		if _, ok := bucket["_productQuantizerFlatCentroids"]; ok {
			return VecMode{Opaque: true}
		}
		return VecMode{Float: metric}
	}
	return VecMode{Float: metric}
}

func (vm VecMode) Distance(q, v []float32) (float64, error) {
	if vm.Bit != "" {
		return refBitDistance(vm.Bit, q, v, vm.Threshold)
	}
	return refFloatDistance(vm.Float, q, v)
}

func docVector(d Doc, prop string, dim int) ([]float32, bool) {
	raw, ok := Lookup(d, prop)
	if !ok {
		return nil, false
	}
	arr, ok := raw.([]any)
	if !ok || len(arr) != dim {
		return nil, false
	}
	out := make([]float32, dim)
	for i, x := range arr {
		f, ok := x.(float32)
		if !ok {
			return nil, false
		}
		out[i] = f
	}
	return out, true
}

// VectorCandidates returns the reference distance of every live point that
// carries the vector field and passes the filter (nil filter = all).
func (m *RefShard) VectorCandidates(prop string, dim int, vm VecMode, q []float32, filter *IDSet) (map[uuid.UUID]float64, error) {
	out := map[uuid.UUID]float64{}
	pqAbsTol = nil
	if vm.PQ != nil {
		pqAbsTol = map[uuid.UUID]float64{}
	}
	for id, d := range detRange(m.Docs) {
		if filter != nil && !filter.Must[id] {
			continue
		}
		v, ok := docVector(d, prop, dim)
		if !ok {
			continue
		}
		var dist float64
		var err error
		if vm.PQ != nil {
			code, ok := vm.PQ.Codes[id]
			if !ok || vm.PQ.Problem != "" {
				return nil, fmt.Errorf("product quantiser state unusable (CheckPQ reports it): point %d", PIDIndex(id))
			}
			var mag float64
			dist, mag, err = vm.PQ.distance(q, code)
			pqAbsTol[id] = 2e-6 * mag // float32 accumulation over a handful of terms
		} else {
			dist, err = vm.Distance(q, v)
		}
		if err != nil {
			return nil, err
		}
		out[id] = dist
	}
	return out, nil
}

func closeF(a, b float64) bool {
	if a == b {
		return true
	}
	d := math.Abs(a - b)
	return d <= absTol || d <= relTol*math.Max(math.Abs(a), math.Abs(b))
}

// CheckValidRanked: the part of the vector oracle that holds for every index
// kind: members of the candidate set, distinct, at most limit, sorted, reported
// distance = reference distance, hybrid = -weight*distance.
func CheckValidRanked(want map[uuid.UUID]float64, got []Item, limit int, weight *float32, opaque bool) string {
	if len(got) > limit {
		return fmt.Sprintf("%d results for limit %d", len(got), limit)
	}
	w := float64(1)
	if weight != nil {
		w = float64(*weight)
	}
	seen := map[int]bool{}
	prev := math.Inf(-1)
	for i, it := range got {
		if seen[it.ID] {
			return fmt.Sprintf("id %d returned twice", it.ID)
		}
		seen[it.ID] = true
		ref, ok := want[PID(it.ID)]
		if !ok {
			return fmt.Sprintf("id %d returned but it is not a live point with the field inside the filter", it.ID)
		}
		if it.Dist == nil {
			return fmt.Sprintf("id %d has no _distance", it.ID)
		}
		d := float64(*it.Dist)
		if !opaque && !closeV(PID(it.ID), d, ref) {
			return fmt.Sprintf("id %d: reported distance %g, definition gives %g", it.ID, d, ref)
		}
		if d < prev && !closeF(d, prev) {
			return fmt.Sprintf("results not in non-decreasing distance order at position %d (%g after %g)", i, d, prev)
		}
		prev = d
		if !closeF(float64(it.Hybrid), -w*d) {
			return fmt.Sprintf("id %d: hybrid score %g, expected -weight*distance = %g", it.ID, it.Hybrid, -w*d)
		}
	}
	return ""
}

// CheckExactTopK: the answer must be the limit nearest candidates (all of them
// if fewer), ties at the cut exchangeable.
func CheckExactTopK(want map[uuid.UUID]float64, got []Item, limit int) string {
	n := min(limit, len(want))
	if len(got) != n {
		return fmt.Sprintf("%d results, expected %d (limit %d, %d candidates)", len(got), n, limit, len(want))
	}
	if n == 0 {
		return ""
	}
	ds := make([]float64, 0, len(want))
	for _, d := range detRange(want) {
		ds = append(ds, d)
	}
	sort.Float64s(ds)
	kth := ds[n-1]
	seen := map[uuid.UUID]bool{}
	for _, it := range got {
		seen[PID(it.ID)] = true
		if ref := want[PID(it.ID)]; ref > kth && !closeF(ref, kth) && ref-kth > 2*pqAbsTol[PID(it.ID)] {
			return fmt.Sprintf("id %d (distance %g) returned although %d candidates are closer than it (k-th distance %g)", it.ID, ref, n, kth)
		}
	}
	for id, d := range detRange(want) {
		if d < kth && !closeF(d, kth) && kth-d > 2*pqAbsTol[id] && !seen[id] {
			return fmt.Sprintf("id %d at distance %g is among the %d nearest (k-th distance %g) but was not returned", PIDIndex(id), d, n, kth)
		}
	}
	return ""
}
