package harness

import "testing"

// TestSim is the single entry point of the worker processes (see core.go).
func TestSim(t *testing.T) { WorkerMain(t) }
