package harness

import (
	"encoding/json"
	"math/rand/v2"
	"strings"

	"github.com/google/uuid"
	"github.com/semafind/semadb/models"
	sim "github.com/semafind/semadb/zzsimrt"
)

// C06 — hybrid scores, field selection, sorting and paging behave as documented.
type c06Params struct {
	Schema       models.IndexSchema     `json:"schema"`
	CacheSize    int64                  `json:"cache_size"`
	MaxPointSize int                    `json:"max_point_size"`
	IDPool       int                    `json:"id_pool"`
	Ops          []Op                   `json:"ops"`
	Requests     []models.SearchRequest `json:"requests"` // asked after the last op (and after op AlsoAfter)
	AlsoAfter    int                    `json:"also_after"`
}

type c06 struct{}

func init() { Register(c06{}) }

func (c06) ID() string { return "C06" }

func (c06) Rule() string {
	return "each run = a seeded write history on a real shard with a flat vector index (float metric), a text index and string/integer/float filter indexes, then seeded composite requests: _or/_and trees (1-4 sub-queries, depth <= 2) mixing vector, text and filter sub-queries with arbitrary weights (incl. 0 and negative), select lists (dotted paths, '*', paths colliding with scalars, absent paths), 0-4 sort keys (asc/desc, nested, missing on some points), offsets up to beyond the result size and limits; parallel sub-query goroutines run under the seeded scheduler. Oracle: result set = union/intersection of model sub-results, hybrid = sum of weighted contributions, ranked first by hybrid then filter-only matches, selected values = stored values, order consistent with the comparator (missing last), page = contiguous slice (rank-bound check, tie tolerant). Requests whose answer the statement leaves open (tie at a sub-query's top-k cut, zero-term containsAll) are skipped and counted. Non-trivial: >= 4 checked requests with >= 2 results and >= 1 with overlapping ranking sub-queries. Distinct: (trace hash, final state)."
}

func c06Schema(r *rand.Rand) models.IndexSchema {
	dim := 2 + r.IntN(3)
	s := models.IndexSchema{
		"vf": {Type: models.IndexTypeVectorFlat, VectorFlat: &models.IndexVectorFlatParameters{VectorSize: uint(dim), DistanceMetric: pick(r, []string{models.DistanceEuclidean, models.DistanceDot, models.DistanceCosine})}},
		"t":  {Type: models.IndexTypeText, Text: &models.IndexTextParameters{Analyser: "standard"}},
		"s":  {Type: models.IndexTypeString, String: &models.IndexStringParameters{CaseSensitive: r.IntN(2) == 0}},
		"n":  {Type: models.IndexTypeInteger},
	}
	if r.IntN(2) == 0 {
		s["f"] = models.IndexSchemaValue{Type: models.IndexTypeFloat}
	}
	if r.IntN(2) == 0 {
		s["meta.tag"] = models.IndexSchemaValue{Type: models.IndexTypeString, String: &models.IndexStringParameters{CaseSensitive: true}}
	}
	if r.IntN(3) == 0 {
		s["vf2"] = models.IndexSchemaValue{Type: models.IndexTypeVectorFlat, VectorFlat: &models.IndexVectorFlatParameters{VectorSize: 2, DistanceMetric: models.DistanceEuclidean}}
	}
	return s
}

func genComposite(r *rand.Rand, schema models.IndexSchema, idPool, depth int) models.Query {
	n := 1 + r.IntN(4)
	subs := make([]models.Query, n)
	rp := rankProps(schema)
	for i := range subs {
		switch x := r.IntN(10); {
		case x < 5:
			subs[i] = *genRankQuery(r, schema, pick(r, rp), idPool, true)
		case x < 8 || depth >= 2:
			subs[i] = *genFilterTree(r, schema, idPool, 2)
		default:
			subs[i] = genComposite(r, schema, idPool, depth+1)
		}
	}
	if r.IntN(3) == 0 {
		return models.Query{Property: "_and", And: subs}
	}
	return models.Query{Property: "_or", Or: subs}
}

var selectPaths = []string{"s", "n", "f", "t", "vf", "meta", "meta.tag", "meta.k", "x", "y", "nope", "s.x", "meta.tag.z", "extra", "deepdoc.a.b.c", "deepdoc.a.b.d", "deepdoc.a.b", "deepdoc.a", "x.deep.k", "y.k.deep"}
var sortPaths = []string{"n", "f", "s", "meta.tag", "deepdoc.a.b.c", "deepdoc.a.b.d"}

func genSelectSort(r *rand.Rand) ([]string, []models.SortOption) {
	var sel []string
	switch r.IntN(5) {
	case 0:
		sel = nil
	case 1:
		sel = []string{"*"}
	default:
		for _, p := range selectPaths {
			if r.IntN(3) == 0 {
				sel = append(sel, p)
			}
		}
		r.Shuffle(len(sel), func(i, j int) { sel[i], sel[j] = sel[j], sel[i] })
	}
	var srt []models.SortOption
	if len(sel) > 0 && r.IntN(2) == 0 {
		for k := 0; k < 1+r.IntN(4); k++ {
			p := pick(r, sortPaths)
			if sel[0] != "*" {
				// sort fields must be selected first (documented)
				ok := false
				for _, s := range sel {
					if s == p || (p == "meta.tag" && s == "meta") || (strings.HasPrefix(p, "deepdoc.") && strings.HasPrefix(p, s+".")) {
						ok = true
					}
				}
				if !ok {
					sel = append(sel, p)
				}
			}
			srt = append(srt, models.SortOption{Property: p, Descending: r.IntN(2) == 0})
		}
	}
	return sel, srt
}

func (c06) Generate(r *rand.Rand, tier string) (sim.Config, any) {
	cfg := RandomSimConfig(r)
	p := c06Params{Schema: c06Schema(r), MaxPointSize: 3000, IDPool: 10 + r.IntN(20)}
	p.CacheSize = pick(r, []int64{-1, -1, 0})
	nops := 3 + r.IntN(6)
	nreq := 8
	if tier == "thorough" {
		nops = 5 + r.IntN(12)
		nreq = 14
	}
	p.Ops = GenHistory(r, p.Schema, p.MaxPointSize, HistoryOpts{NOps: nops, IDPool: p.IDPool, MaxBatch: 10, AllowReopen: true, PIndexed: 0.8})
	p.AlsoAfter = r.IntN(len(p.Ops))
	for k := 0; k < nreq; k++ {
		sel, srt := genSelectSort(r)
		req := models.SearchRequest{Query: genComposite(r, p.Schema, p.IDPool, 0), Select: sel, Sort: srt}
		req.Offset = pick(r, []int{0, 0, 1, 2, 5, 40})
		req.Limit = pick(r, []int{0, 1, 3, 10, 100})
		p.Requests = append(p.Requests, req)
	}
	return cfg, p
}

func (c06) Sample(raw json.RawMessage) any {
	var p c06Params
	json.Unmarshal(raw, &p)
	kinds := []string{}
	for _, o := range p.Ops {
		kinds = append(kinds, o.Kind)
	}
	var q any
	if len(p.Requests) > 0 {
		q = compactQuery(p.Requests[0])
	}
	return map[string]any{"schema": p.Schema, "ops": kinds, "first_request": q}
}

func (c06) Shrink(raw json.RawMessage) []json.RawMessage {
	var p c06Params
	json.Unmarshal(raw, &p)
	var out []json.RawMessage
	if len(p.Requests) > 1 {
		for i := range p.Requests {
			q := p
			q.Requests = []models.SearchRequest{p.Requests[i]}
			out = append(out, mustJSON(q))
		}
		return out
	}
	for _, ops := range shrinkOps(p.Ops) {
		q := p
		q.Ops = ops
		q.AlsoAfter = len(ops) - 1
		out = append(out, mustJSON(q))
	}
	if len(p.Requests) == 1 {
		rq := p.Requests[0]
		subs := append(append([]models.Query(nil), rq.Query.And...), rq.Query.Or...)
		if len(subs) > 1 {
			for i := range subs {
				rest := append(append([]models.Query(nil), subs[:i]...), subs[i+1:]...)
				q := p
				nr := rq
				if rq.Query.Property == "_and" {
					nr.Query = models.Query{Property: "_and", And: rest}
				} else {
					nr.Query = models.Query{Property: "_or", Or: rest}
				}
				q.Requests = []models.SearchRequest{nr}
				out = append(out, mustJSON(q))
			}
		}
		if len(rq.Sort) > 0 {
			q := p
			nr := rq
			nr.Sort = rq.Sort[:len(rq.Sort)-1]
			q.Requests = []models.SearchRequest{nr}
			out = append(out, mustJSON(q))
		}
		if rq.Offset > 0 || rq.Limit > 0 {
			q := p
			nr := rq
			nr.Offset, nr.Limit = 0, 0
			q.Requests = []models.SearchRequest{nr}
			out = append(out, mustJSON(q))
		}
	}
	return out
}

func countRankLeaves(q models.Query, schema models.IndexSchema) int {
	switch q.Property {
	case "_and":
		n := 0
		for _, s := range q.And {
			n += countRankLeaves(s, schema)
		}
		return n
	case "_or":
		n := 0
		for _, s := range q.Or {
			n += countRankLeaves(s, schema)
		}
		return n
	case "_id":
		return 0
	}
	switch schema[q.Property].Type {
	case models.IndexTypeVectorFlat, models.IndexTypeVectorVamana, models.IndexTypeText:
		return 1
	}
	return 0
}

// checkRequest validates one request against the model. Returns whether it was
// checked (false: the statement leaves the answer open) and whether it was "rich".
func checkRequest(env *Env, w *ShardWorld, m *RefShard, qe QueryEnv, req models.SearchRequest, where string) (checked, rich bool) {
	want, err := m.EvalQuery(qe, req.Query)
	if err != nil {
		env.Infra("model cannot evaluate request: %v", err)
		return
	}
	if want.Ambiguous != "" {
		env.Stat("skipped:"+want.Ambiguous, 1)
		// even then the request must not fail
		if a := w.Ask(req); a.Err != "" {
			env.Violate("spurious-error", "composite-error", "%s: request %s failed: %s", where, jsonStr(req), a.Err)
		}
		return
	}
	// the full, un-paged answer
	full := req
	full.Offset, full.Limit = 0, 0
	a := w.Ask(full)
	if a.Err != "" {
		env.Violate("spurious-error", "composite-error", "%s: request %s failed: %s", where, jsonStr(full), a.Err)
		return
	}
	hy := hybridOf(want)
	// set equality
	got := map[uuid.UUID]bool{}
	for _, it := range a.Items {
		if got[PID(it.ID)] {
			env.Violate("wrong-answer", "composite-duplicate", "%s: request %s: id %d returned twice", where, jsonStr(full), it.ID)
			return
		}
		got[PID(it.ID)] = true
		if !want.Set[PID(it.ID)] {
			env.Violate("wrong-answer", "composite-set", "%s: request %s: id %d returned but the model's union/intersection does not contain it", where, jsonStr(full), it.ID)
			return
		}
	}
	for id := range detRange(want.Set) {
		if !got[id] {
			env.Violate("wrong-answer", "composite-set", "%s: request %s: id %d belongs to the union/intersection but was not returned; got %v", where, jsonStr(full), PIDIndex(id), sortedIDs(a.Items))
			return
		}
	}
	// hybrid scores and projections
	var all []orderedItem
	for _, it := range a.Items {
		id := PID(it.ID)
		h, ranked := hy[id]
		if ranked {
			if !closeF(float64(it.Hybrid), h) {
				env.Violate("wrong-answer", "composite-hybrid", "%s: request %s: id %d has hybrid score %g, sum of weighted contributions is %g", where, jsonStr(full), it.ID, it.Hybrid, h)
				return
			}
		} else if it.Hybrid != 0 || it.Dist != nil || it.Score != nil {
			env.Violate("wrong-answer", "composite-hybrid", "%s: request %s: id %d was matched by filters only but carries scores (hybrid %g)", where, jsonStr(full), it.ID, it.Hybrid)
			return
		}
		var proj Doc
		if len(req.Select) > 0 {
			proj = Project(m.Docs[id], req.Select)
			if it.Doc == nil || !DocEqual(proj, it.Doc) {
				env.Violate("wrong-answer", "select", "%s: request %s: id %d: selected data %v, stored values give %v", where, jsonStr(full), it.ID, it.Doc, proj)
				return
			}
		} else {
			proj = Doc{}
		}
		all = append(all, orderedItem{id: id, ranked: ranked, hybrid: h, doc: proj})
	}
	if d := CheckPage(all, a.Items, req.Sort, 0, 0); d != "" {
		env.Violate("wrong-answer", "order", "%s: request %s: %s; got %s", where, jsonStr(full), d, fmtItems(a.Items))
		return
	}
	// the page
	if req.Offset != 0 || req.Limit != 0 {
		pa := w.Ask(req)
		if pa.Err != "" {
			env.Violate("spurious-error", "composite-error", "%s: request %s failed: %s", where, jsonStr(req), pa.Err)
			return
		}
		if d := CheckPage(all, pa.Items, req.Sort, req.Offset, req.Limit); d != "" {
			env.Violate("wrong-answer", "paging", "%s: request %s: %s; page %s of full %s", where, jsonStr(req), d, fmtItems(pa.Items), fmtItems(a.Items))
			return
		}
		for _, it := range pa.Items {
			if len(req.Select) > 0 {
				if proj := Project(m.Docs[PID(it.ID)], req.Select); it.Doc == nil || !DocEqual(proj, it.Doc) {
					env.Violate("wrong-answer", "select", "%s: request %s: id %d: selected data %v, stored values give %v", where, jsonStr(req), it.ID, it.Doc, proj)
					return
				}
			}
		}
	}
	return true, len(a.Items) >= 2
}

func (c06) Execute(env *Env) {
	var p c06Params
	if err := json.Unmarshal(env.Spec.Params, &p); err != nil {
		env.Infra("bad params: %v", err)
		return
	}
	sw := NewStoreWorld()
	sw.Install()
	defer sw.Uninstall()
	col := models.Collection{UserId: "u", Id: "c", UserPlan: models.UserPlan{MaxPointSize: p.MaxPointSize}, IndexSchema: p.Schema}
	model := NewRefShard(p.MaxPointSize)
	checked, rich, overlap := 0, 0, 0
	env.RunSim(env.Spec.Sim, func() {
		w := NewShardWorld(env, sw, col, "bbolt", p.CacheSize)
		if err := w.Open(); err != nil {
			env.Infra("open: %v", err)
			return
		}
		defer w.Close()
		for i, op := range p.Ops {
			if !applyOp(env, w, model, i, op) {
				return
			}
			if i != len(p.Ops)-1 && i != p.AlsoAfter {
				continue
			}
			dump, err := DumpFile(w.Path)
			if err != nil {
				env.Infra("dump: %v", err)
				return
			}
			qe := QueryEnv{Schema: p.Schema, Dump: dump}
			for ri, req := range p.Requests {
				c, r := checkRequest(env, w, model, qe, req, "after op "+itoa(i)+", request "+itoa(ri))
				if env.Violated() {
					return
				}
				if c {
					checked++
					if r {
						rich++
						if countRankLeaves(req.Query, p.Schema) >= 2 {
							overlap++
						}
					}
				}
			}
		}
	})
	env.Stat("requests-checked", checked)
	env.Stat("requests-rich", rich)
	env.Stat("requests-multi-rank", overlap)
	env.SetNonTrivial(rich >= 4 && overlap >= 1)
	env.SetStateHash(model.StateKey())
}
