package harness

import (
	"encoding/json"
	"math/rand/v2"

	"github.com/semafind/semadb/models"
	sim "github.com/semafind/semadb/zzsimrt"
)

// C03 — graph (Vamana) vector search returns only live, in-filter points, correctly ranked.
type c03 struct{}

func init() { Register(c03{}) }

func (c03) ID() string { return "C03" }

func (c03) Rule() string {
	return "each run = a seeded write history (inserts, vector updates, vector removal, deletes, id reuse, reopen) on a real shard with a Vamana index (six metrics, quantiser none / binary fixed / binary learned / product, legal degree bound / alpha / search size) built by 1-4 insert workers interleaved by the seeded scheduler at every node lock, cache mutex and storage operation; after every write seeded graph queries (limit <= searchSize, weights, pre-filters of every selectivity) are asked of the warm instance and periodically of a cold copy. Always: results live, carry the field, inside the filter, distinct, <= limit, non-decreasing distance, distance = index distance (quantised form recomputed from persisted parameters: binary threshold, or product centroids and stored codes), hybrid = -weight*distance, search never errors. Exact tie-tolerant k-NN is demanded in the two stated regimes: insert-only history with <= min(degreeBound, searchSize-1) vectors; pre-filter with <= searchSize members. Half of the runs are insert-only small collections to reach regime one. Non-trivial: >= 5 answers with >= 2 results over >= 2 model states. Distinct: (trace hash, final state)."
}

func c03Schema(r *rand.Rand) models.IndexSchema {
	s := models.IndexSchema{"vv": {Type: models.IndexTypeVectorVamana, VectorVamana: genVamanaParams(r, 2+r.IntN(5), true)}}
	if r.IntN(2) == 0 {
		s["s"] = models.IndexSchemaValue{Type: models.IndexTypeString, String: &models.IndexStringParameters{CaseSensitive: true}}
	}
	if r.IntN(2) == 0 {
		s["n"] = models.IndexSchemaValue{Type: models.IndexTypeInteger}
	}
	return s
}

func (c03) Generate(r *rand.Rand, tier string) (sim.Config, any) {
	cfg := RandomSimConfig(r)
	old := vecStyle
	vecStyle = pickVecStyle(r)
	defer func() { vecStyle = old }()
	schema := c03Schema(r)
	if r.IntN(2) == 0 {
		// insert-only, small: the first exactness regime
		p := vecParams_{Schema: schema, MaxPointSize: 3000, IDPool: 40, ColdEvery: 2, InsertOnly: true}
		p.CacheSize = pick(r, []int64{-1, -1, 0})
		vp := schema["vv"].VectorVamana
		maxN := min(vp.DegreeBound, vp.SearchSize-1)
		total := 3 + r.IntN(maxN-2)
		switch r.IntN(5) { // the regime's boundary is where off-by-one errors live
		case 0, 1:
			total = maxN
		case 2:
			total = maxN - 1
		}
		next := 0
		for next < total {
			n := min(total-next, 1+r.IntN(12))
			if vecStyle == "chain" || vecStyle == "ray" {
				n = 1
			}
			var batch []PointSpec
			for k := 0; k < n; k++ {
				d := GenDoc(r, schema, 0.95)
				if vecStyle == "chain" || vecStyle == "ray" {
					applyChainVectors(d, schema, next)
				}
				batch = append(batch, PointSpec{ID: next, Doc: d})
				next++
			}
			p.Ops = append(p.Ops, Op{Kind: "insert", Points: batch})
			if r.IntN(5) == 0 {
				p.Ops = append(p.Ops, Op{Kind: "reopen"})
			}
		}
		p.Queries = make([][]models.SearchRequest, len(p.Ops))
		for i := range p.Ops {
			for k := 0; k < 4; k++ {
				p.Queries[i] = append(p.Queries[i], models.SearchRequest{Query: *genRankQuery(r, schema, "vv", p.IDPool, true), Select: []string{"*"}})
			}
		}
		return cfg, p
	}
	return cfg, genVecHistoryParams(r, tier, schema, "vv")
}

func (c03) Sample(raw json.RawMessage) any              { return sampleVec(raw) }
func (c03) Shrink(raw json.RawMessage) []json.RawMessage { return shrinkVec(raw) }

func (c03) Execute(env *Env) {
	var p vecParams_
	if err := json.Unmarshal(env.Spec.Params, &p); err != nil {
		env.Infra("bad params: %v", err)
		return
	}
	sw := NewStoreWorld()
	sw.Install()
	defer sw.Uninstall()
	col := models.Collection{UserId: "u", Id: "c", UserPlan: models.UserPlan{MaxPointSize: p.MaxPointSize}, IndexSchema: p.Schema}
	model := NewRefShard(p.MaxPointSize)
	states := map[string]bool{}
	rich := 0
	vp := p.Schema["vv"].VectorVamana
	dim, metric, quant := vecIndexInfo(p.Schema["vv"])
	insertOnly := true
	var tr pqTracker
	env.RunSim(env.Spec.Sim, func() {
		w := NewShardWorld(env, sw, col, "bbolt", p.CacheSize)
		if err := w.Open(); err != nil {
			env.Infra("open: %v", err)
			return
		}
		defer w.Close()
		for i, op := range p.Ops {
			if op.Kind == "update" || op.Kind == "delete" {
				insertOnly = false
			}
			if !applyOp(env, w, model, i, op) {
				return
			}
			isPQ := quantTrigger(quant) > 0 // bookkeeping of the training trigger needs every operation
			if len(p.Queries[i]) == 0 && !isPQ {
				continue
			}
			states[model.StateKey()] = true
			dump, err := DumpFile(w.Path)
			if err != nil {
				env.Infra("dump: %v", err)
				return
			}
			vm, ok := vecModeAt(env, model, p.Schema, "vv", dump, &tr, i)
			if !ok {
				return
			}
			if len(p.Queries[i]) == 0 {
				continue
			}
			targets := []*ShardWorld{w}
			names := []string{"warm"}
			if p.ColdEvery > 0 && i%p.ColdEvery == 0 {
				c, err := w.ColdCopy(pick2(i, -1, 0))
				if err != nil {
					env.Violate("spurious-error", "cold-open", "after op %d: cannot open a copy of the file: %v", i, err)
					return
				}
				defer c.Discard()
				targets = append(targets, c)
				names = append(names, "cold copy")
			}
			nvec := 0
			for _, d := range detRange(model.Docs) {
				if _, ok := docVector(d, "vv", dim); ok {
					nvec++
				}
			}
			for qi, req := range p.Queries[i] {
				vo := req.Query.VectorVamana
				var filter *IDSet
				filterSize := -1
				if vo.Filter != nil {
					f, err := model.EvalFilter(p.Schema, *vo.Filter)
					if err != nil {
						env.Infra("model filter: %v", err)
						return
					}
					if len(f.May) > 0 {
						env.Stat("skipped-open-filter", 1)
						continue
					}
					filter = &f
					filterSize = len(f.Must)
				}
				want, err := model.VectorCandidates("vv", dim, vm, vo.Vector, filter)
				if err != nil {
					env.Infra("model distance: %v", err)
					return
				}
				exact := ""
				switch {
				case filter != nil && filterSize <= vo.SearchSize:
					exact = "small-filter"
				case filter == nil && insertOnly && nvec <= min(vp.DegreeBound, vp.SearchSize-1, vo.SearchSize-1):
					exact = "small-insert-only"
				}
				for ti, t := range targets {
					a := t.Ask(req)
					env.Stat("queries", 1)
					where := "after op " + itoa(i) + " (" + op.Kind + "), " + names[ti] + ", query " + itoa(qi) + " " + jsonStr(req.Query)
					if a.Err != "" {
						env.Violate("spurious-error", "graph-search-error:"+errSigStr(a.Err), "%s failed: %s", where, a.Err)
						return
					}
					if d := CheckValidRanked(want, a.Items, vo.Limit, vo.Weight, vm.Opaque); d != "" {
						if pqCosineUntrained(metric, quant, vm) {
							if alt, err := model.VectorCandidates("vv", dim, VecMode{Float: models.DistanceEuclidean}, vo.Vector, filter); err == nil &&
								CheckValidRanked(alt, a.Items, vo.Limit, vo.Weight, false) == "" {
								env.Violate("wrong-answer", "product-cosine-untrained-reports-euclidean", "%s: cosine index with an untrained product quantiser reports squared euclidean distances: %s; got %s", where, d, fmtItems(a.Items))
								return
							}
						}
						env.Violate("wrong-answer", "graph-invalid", "%s: %s; got %s", where, d, fmtItems(a.Items))
						return
					}
					if exact != "" && !vm.Opaque {
						env.Stat("exact-checked:"+exact, 1)
						if d := CheckExactTopK(want, a.Items, vo.Limit); d != "" {
							env.Violate("wrong-answer", "graph-not-exact:"+exact, "%s (%d vectors stored, filter size %d): %s; got %s", where, nvec, filterSize, d, fmtItems(a.Items))
							return
						}
					}
					if len(a.Items) >= 2 && ti == 0 {
						rich++
					}
				}
			}
		}
	})
	env.Stat("model-states", len(states))
	env.SetNonTrivial(len(states) >= 2 && rich >= 5)
	env.SetStateHash(model.StateKey())
}

func errSigStr(msg string) string {
	if i := lastIndex(msg, ": "); i >= 0 {
		msg = msg[i+2:]
	}
	msg = stripDigits(msg)
	if len(msg) > 48 {
		msg = msg[:48]
	}
	return msg
}

func lastIndex(s, sub string) int {
	for i := len(s) - len(sub); i >= 0; i-- {
		if s[i:i+len(sub)] == sub {
			return i
		}
	}
	return -1
}
