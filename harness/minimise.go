package harness

import (
	"encoding/json"
	"os"
	"testing"
	"time"
)

// workerMinimise shrinks a failing spec while the same violation (class and
// signature) persists: first the workload / fault plan (property-specific
// Shrink candidates), then the schedule (preemption budget, yield density, map
// shuffling). The result is re-run once more before it is written.
func workerMinimise(t *testing.T) {
	rf, err := readReplay(os.Getenv("SIM_REPLAY"))
	if err != nil {
		emit(map[string]any{"infra": "cannot read replay: " + err.Error()})
		return
	}
	out := os.Getenv("SIM_OUT")
	p := registry[rf.Spec.Property]
	deadline := time.Now().Add(time.Duration(envInt("SIM_BUDGET_S", 60)) * time.Second)
	best := rf.Spec
	bestRes := RunSpec(t, best)
	if !sameViolation(bestRes.Violations, rf.Violations) {
		emit(map[string]any{"infra": "original replay did not reproduce", "result": bestRes})
		return
	}
	tried := 0
	try := func(c Spec) bool {
		if time.Now().After(deadline) {
			return false
		}
		tried++
		r := RunSpec(t, c)
		if r.Infra == "" && sameViolation(r.Violations, rf.Violations) {
			best, bestRes = c, r
			return true
		}
		return false
	}
	// 1. workload / fault plan
	for progress := true; progress && time.Now().Before(deadline); {
		progress = false
		for _, cand := range p.Shrink(best.Params) {
			c := best
			c.Params = cand
			if try(c) {
				progress = true
				break
			}
			// the schedule is re-derived from the seed; give the candidate two more schedules
			for alt := uint64(1); alt <= 2; alt++ {
				c2 := c
				c2.Sim.Seed = best.Sim.Seed + alt*7919
				if try(c2) {
					progress = true
					break
				}
			}
			if progress {
				break
			}
		}
	}
	// 2. schedule: fewer preemptions, no map shuffling, fewer workers
	if best.Sim.ShuffleMaps {
		c := best
		c.Sim.ShuffleMaps = false
		try(c)
	}
	if best.Sim.Workers > 1 {
		c := best
		c.Sim.Workers = 1
		try(c)
	}
	if sw := bestRes.Outcome.Switches; sw > 0 {
		lo, hi := 0, sw // smallest preemption budget that still fails
		for lo < hi && time.Now().Before(deadline) {
			mid := (lo + hi) / 2
			c := best
			c.Sim.PreemptAfter = max(mid, 1)
			if try(c) {
				hi = mid
			} else {
				lo = mid + 1
			}
			if hi <= 1 {
				break
			}
		}
	}
	// final confirmation run of the minimised spec
	final := RunSpec(t, best)
	ok := sameViolation(final.Violations, rf.Violations)
	if ok && out != "" {
		writeReplay(out, final, true)
	}
	emit(map[string]any{"minimised": ok, "tried": tried, "steps_before": rf.Steps, "steps_after": final.Outcome.Steps, "result": final})
}

// helpers for Shrink implementations ----------------------------------------

func mustJSON(v any) json.RawMessage {
	b, err := json.Marshal(v)
	if err != nil {
		panic(err)
	}
	return b
}
