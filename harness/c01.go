package harness

import (
	"encoding/json"
	"strings"
	"math/rand/v2"

	"github.com/google/uuid"
	"github.com/semafind/semadb/models"
	sim "github.com/semafind/semadb/zzsimrt"
)

// C01 — stored points follow the documented insert / update / delete semantics.
type c01Params struct {
	Schema       models.IndexSchema `json:"schema"`
	Backend      string             `json:"backend"`
	CacheSize    int64              `json:"cache_size"`
	MaxPointSize int                `json:"max_point_size"`
	IDPool       int                `json:"id_pool"`
	Ops          []Op               `json:"ops"`
}

type c01 struct{}

func init() { Register(c01{}) }

func (c01) ID() string { return "C01" }

func (c01) Rule() string {
	return "each run = one seeded history of insert/update/delete/reopen/evict batches (ids from a small pool, random index schema, backend, cache size) executed on a real shard under one seeded schedule of its internal pipeline goroutines; after every batch the full stored state is compared with the reference model. Non-trivial: the model passed through >= 3 distinct states. Distinct: different (scheduler trace hash, final model state)."
}

func (c01) Generate(r *rand.Rand, tier string) (sim.Config, any) {
	cfg := RandomSimConfig(r)
	p := c01Params{Schema: GenSchema(r, AllIndexKinds), Backend: "bbolt", MaxPointSize: 300 + r.IntN(500), IDPool: 12 + r.IntN(16)}
	p.CacheSize = pick(r, []int64{-1, -1, 0, 2000, 100000})
	nops := 6 + r.IntN(14)
	if tier == "thorough" {
		nops = 10 + r.IntN(30)
	}
	ho := HistoryOpts{NOps: nops, IDPool: p.IDPool, MaxBatch: 8, PReject: 0.12, POversize: 0.06, AllowReopen: true, PIndexed: 0.7}
	if r.IntN(6) == 0 {
		// in-memory backend: it has no rollback, and C08 scopes it to histories of successful batches
		p.Backend = "mem"
		ho.PReject, ho.POversize = 0, 0
	}
	p.Ops = GenHistory(r, p.Schema, p.MaxPointSize, ho)
	return cfg, p
}

func (c01) Sample(raw json.RawMessage) any {
	var p c01Params
	json.Unmarshal(raw, &p)
	kinds := []string{}
	for _, o := range p.Ops {
		kinds = append(kinds, o.Kind)
	}
	return map[string]any{"schema": p.Schema, "backend": p.Backend, "cache_size": p.CacheSize, "ops": kinds, "first_op": firstOp(p.Ops)}
}

func firstOp(ops []Op) any {
	if len(ops) == 0 {
		return nil
	}
	return ops[0]
}

func (c01) Shrink(raw json.RawMessage) []json.RawMessage {
	var p c01Params
	json.Unmarshal(raw, &p)
	var out []json.RawMessage
	for _, ops := range shrinkOps(p.Ops) {
		q := p
		q.Ops = ops
		out = append(out, mustJSON(q))
	}
	if len(p.Schema) > 1 {
		for _, k := range sortedKeys(p.Schema) {
			q := p
			q.Schema = models.IndexSchema{}
			for k2, v := range detRange(p.Schema) {
				if k2 != k {
					q.Schema[k2] = v
				}
			}
			out = append(out, mustJSON(q))
		}
	}
	return out
}

func sameIDSet(a, b []uuid.UUID) bool {
	if len(a) != len(b) {
		return false
	}
	m := map[uuid.UUID]int{}
	for _, x := range a {
		m[x]++
	}
	for _, x := range b {
		m[x]--
	}
	for _, v := range detRange(m) {
		if v != 0 {
			return false
		}
	}
	return true
}

// applyOp executes one history step on the world and on the model and checks
// the per-call part of the oracle. Returns false when a violation was recorded.
func applyOp(env *Env, w *ShardWorld, m *RefShard, i int, op Op) bool {
	where := func() string { return "op " + itoa(i) + " (" + op.Kind + ")" }
	switch op.Kind {
	case "insert":
		err := w.Insert(op.Points)
		rejected := m.Insert(op.Points)
		env.Stat("insert", 1)
		if rejected {
			env.Stat("insert-rejected", 1)
		}
		if rejected && err == nil {
			env.Violate("wrong-answer", "insert-not-rejected", "%s: an insert with a repeated or already stored id was accepted", where())
			return false
		}
		if !rejected && err != nil {
			env.Violate("spurious-error", "insert-error:"+errSig(err), "%s: valid insert failed: %v", where(), err)
			return false
		}
	case "update":
		ids, err := w.Update(op.Points)
		want, rejected := m.Update(op.Points)
		env.Stat("update", 1)
		if rejected {
			env.Stat("update-rejected", 1)
		}
		if rejected && err == nil {
			env.Violate("wrong-answer", "update-not-rejected", "%s: an update producing an oversized document was accepted", where())
			return false
		}
		if !rejected && err != nil {
			env.Violate("spurious-error", "update-error:"+errSig(err), "%s: valid update failed: %v", where(), err)
			return false
		}
		if !rejected && !sameIDSet(ids, want) {
			env.Violate("wrong-answer", "updated-ids", "%s: reported updated ids [%s], model [%s]", where(), fmtIDs(ids), fmtIDs(want))
			return false
		}
	case "delete":
		ids, err := w.Delete(op.IDs)
		want := m.Delete(op.IDs)
		env.Stat("delete", 1)
		if err != nil {
			env.Violate("spurious-error", "delete-error:"+errSig(err), "%s: delete failed: %v", where(), err)
			return false
		}
		if !sameIDSet(ids, want) {
			env.Violate("wrong-answer", "deleted-ids", "%s: reported deleted ids [%s], model [%s]", where(), fmtIDs(ids), fmtIDs(want))
			return false
		}
	case "reopen":
		env.Stat("reopen", 1)
		if err := w.Reopen(); err != nil {
			env.Violate("spurious-error", "reopen-error", "%s: reopening the shard failed: %v", where(), err)
			return false
		}
	case "evict":
		env.Stat("evict", 1)
		w.EvictCaches()
	}
	return true
}

// errSig is the innermost message of a wrapped error chain with digits removed.
func errSig(err error) string {
	msg := err.Error()
	if i := strings.LastIndex(msg, ": "); i >= 0 {
		msg = msg[i+2:]
	}
	msg = stripDigits(msg)
	if len(msg) > 48 {
		msg = msg[:48]
	}
	return msg
}

func itoa(i int) string {
	b, _ := json.Marshal(i)
	return string(b)
}

func allIDs(n int) []int {
	out := make([]int, n)
	for i := range out {
		out[i] = i
	}
	return out
}

func (c01) Execute(env *Env) {
	var p c01Params
	if err := json.Unmarshal(env.Spec.Params, &p); err != nil {
		env.Infra("bad params: %v", err)
		return
	}
	sw := NewStoreWorld()
	sw.Install()
	defer sw.Uninstall()
	col := models.Collection{UserId: "u", Id: "c", UserPlan: models.UserPlan{MaxPointSize: p.MaxPointSize}, IndexSchema: p.Schema}
	model := NewRefShard(p.MaxPointSize)
	states := map[string]bool{}
	env.RunSim(env.Spec.Sim, func() {
		w := NewShardWorld(env, sw, col, p.Backend, p.CacheSize)
		if err := w.Open(); err != nil {
			env.Infra("open: %v", err)
			return
		}
		defer w.Close()
		probe := allIDs(p.IDPool)
		for i, op := range p.Ops {
			if !applyOp(env, w, model, i, op) {
				return
			}
			if op.Kind == "insert" || op.Kind == "update" || op.Kind == "delete" || op.Kind == "reopen" {
				if !w.AuditDocs(model, probe, "after op "+itoa(i)+" ("+op.Kind+")") {
					return
				}
				states[model.StateKey()] = true
			}
		}
	})
	env.Stat("model-states", len(states))
	env.SetNonTrivial(len(states) >= 3)
	env.SetStateHash(itoa(len(states)) + ":" + model.StateKey())
}
