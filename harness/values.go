package harness

import (
	"bytes"
	"fmt"
	"iter"
	"math"
	"reflect"
	"slices"
	"sort"

	"github.com/google/uuid"
	"github.com/vmihailenco/msgpack/v5"
)

// Val is a typed document value that survives the JSON replay format exactly
// (int64 vs float64 vs float32 vectors, negative zero, empty arrays).
type Val struct {
	I   *int64         `json:"i,omitempty"`
	F   *float64       `json:"f,omitempty"`
	S   *string        `json:"s,omitempty"`
	V   []float32      `json:"v,omitempty"`
	A   *[]string      `json:"a,omitempty"`
	M   *map[string]Val `json:"m,omitempty"`
	B   *bool          `json:"b,omitempty"`
	Del bool           `json:"del,omitempty"` // the "_delete" marker of update batches
}

func VI(i int64) Val      { return Val{I: &i} }
func VF(f float64) Val    { return Val{F: &f} }
func VS(s string) Val     { return Val{S: &s} }
func VV(v []float32) Val  { return Val{V: v} }
func VA(a []string) Val   { return Val{A: &a} }
func VB(b bool) Val       { return Val{B: &b} }
func VM(m map[string]Val) Val {
	if m == nil {
		m = map[string]Val{}
	}
	return Val{M: &m}
}

// DocSpec is a document as generated (typed); Doc is the decoded form the
// model works on (what msgpack decoding into map[string]any produces).
type DocSpec map[string]Val
type Doc = map[string]any

func (v Val) Any() any {
	switch {
	case v.Del:
		return "_delete"
	case v.I != nil:
		return *v.I
	case v.F != nil:
		return *v.F
	case v.S != nil:
		return *v.S
	case v.V != nil:
		return v.V
	case v.A != nil:
		return *v.A
	case v.B != nil:
		return *v.B
	case v.M != nil:
		m := map[string]any{}
		for k, x := range detRange(*v.M) {
			m[k] = x.Any()
		}
		return m
	}
	return nil
}

func (d DocSpec) Any() map[string]any {
	m := map[string]any{}
	for k, v := range detRange(d) {
		m[k] = v.Any()
	}
	return m
}

// Encode gives the msgpack bytes the API layer would store for this document.
func (d DocSpec) Encode() []byte {
	// sorted map keys: the encoded bytes must be a function of the spec alone (one
	// seed = one execution); Go's random map order would change bbolt page contents
	var buf bytes.Buffer
	enc := msgpack.NewEncoder(&buf)
	enc.SetSortMapKeys(true)
	if err := enc.Encode(d.Any()); err != nil {
		panic(err)
	}
	return buf.Bytes()
}

// DecodeDoc decodes stored bytes the way every reader of the database does.
func DecodeDoc(b []byte) (Doc, error) {
	if len(b) == 0 {
		return Doc{}, nil
	}
	var m map[string]any
	dec := msgpack.NewDecoder(bytes.NewReader(b))
	if err := dec.Decode(&m); err != nil {
		return nil, err
	}
	if m == nil {
		m = Doc{}
	}
	return m, nil
}

// Norm normalises a generated document through an encode/decode round trip so
// that model and implementation values have identical dynamic types.
func (d DocSpec) Norm() Doc {
	m, err := DecodeDoc(d.Encode())
	if err != nil {
		panic(err)
	}
	return m
}

func EncodedSize(d Doc) int {
	b, err := msgpack.Marshal(d)
	if err != nil {
		panic(err)
	}
	return len(b)
}

// DocEqual compares decoded documents; floats are compared by bits except that
// NaN never occurs in generated data.
func DocEqual(a, b any) bool {
	switch x := a.(type) {
	case map[string]any:
		y, ok := b.(map[string]any)
		if !ok || len(x) != len(y) {
			return false
		}
		for k, v := range detRange(x) {
			w, ok := y[k]
			if !ok || !DocEqual(v, w) {
				return false
			}
		}
		return true
	case []any:
		y, ok := b.([]any)
		if !ok || len(x) != len(y) {
			return false
		}
		for i := range x {
			if !DocEqual(x[i], y[i]) {
				return false
			}
		}
		return true
	case float64:
		y, ok := b.(float64)
		return ok && math.Float64bits(x) == math.Float64bits(y)
	case float32:
		y, ok := b.(float32)
		return ok && math.Float32bits(x) == math.Float32bits(y)
	}
	return reflect.DeepEqual(a, b)
}

// Lookup follows a dotted path through nested maps, as the index dispatcher and
// select do. Returns (nil,false) when the path is absent.
func Lookup(d Doc, path string) (any, bool) {
	cur := any(d)
	start := 0
	for i := 0; i <= len(path); i++ {
		if i == len(path) || path[i] == '.' {
			m, ok := cur.(map[string]any)
			if !ok {
				return nil, false
			}
			cur, ok = m[path[start:i]]
			if !ok {
				return nil, false
			}
			start = i + 1
		}
	}
	return cur, true
}

// ---- ids ------------------------------------------------------------------

// PID maps a small integer to a stable uuid (ids come from a small pool).
func PID(i int) uuid.UUID {
	var u uuid.UUID
	u[0] = 0xa0
	u[6] = 0x40 // version 4 layout, irrelevant to semadb
	u[8] = 0x80
	u[14] = byte(i >> 8)
	u[15] = byte(i)
	return u
}

func PIDIndex(u uuid.UUID) int { return int(u[14])<<8 | int(u[15]) }

// detRange iterates a map in a key order that is the same in every process (Go's
// own order is random per iteration): every map loop of the harness goes through it,
// because the order may decide which simulated call is made first or which of two
// violations is reported. Entries deleted during the loop are skipped, as in Go.
func detRange[K comparable, V any](m map[K]V) iter.Seq2[K, V] {
	return func(yield func(K, V) bool) {
		keys := make([]K, 0, len(m))
		for k := range m {
			keys = append(keys, k)
		}
		switch ks := any(keys).(type) {
		case []string:
			sort.Strings(ks)
		case []int:
			sort.Ints(ks)
		case []uint64:
			slices.Sort(ks)
		case []uuid.UUID:
			sort.Slice(ks, func(i, j int) bool { return bytes.Compare(ks[i][:], ks[j][:]) < 0 })
		default:
			sort.Slice(keys, func(i, j int) bool { return fmt.Sprint(keys[i]) < fmt.Sprint(keys[j]) })
		}
		for _, k := range keys {
			v, ok := m[k]
			if !ok {
				continue
			}
			if !yield(k, v) {
				return
			}
		}
	}
}

func sortedUUIDs(m map[uuid.UUID]struct{}) []uuid.UUID {
	out := make([]uuid.UUID, 0, len(m))
	for k := range m {
		out = append(out, k)
	}
	sort.Slice(out, func(i, j int) bool { return bytes.Compare(out[i][:], out[j][:]) < 0 })
	return out
}

func fmtIDs(ids []uuid.UUID) string {
	var b bytes.Buffer
	for i, u := range ids {
		if i > 0 {
			b.WriteByte(',')
		}
		fmt.Fprintf(&b, "%d", PIDIndex(u))
	}
	return b.String()
}
