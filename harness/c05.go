package harness

import (
	"encoding/json"
	"math/rand/v2"

	"github.com/semafind/semadb/models"
	sim "github.com/semafind/semadb/zzsimrt"
)

// C05 — text search matches, ranks and limits by tf-idf over the current corpus.
type c05 struct{}

func init() { Register(c05{}) }

func (c05) ID() string { return "C05" }

func (c05) Rule() string {
	return "each run = a seeded history that inserts, rewrites, blanks out (stop words / punctuation only) and deletes text fields on a real shard with a text index (+ optional string/integer indexes for pre-filters) under one seeded schedule of the analysis workers (1-4) and the single index writer; after every write seeded text queries (multi-term, repeated terms, stop-word-only, mixed case, unicode; containsAll / containsAny; limits 1..75; weights; pre-filters) are asked of the warm instance and periodically of cold / cache-disabled copies and compared with an independent tf-idf computation over the model corpus (match set exact, tie-tolerant top-limit, scores within 1e-4). Non-trivial: >= 5 answers with >= 2 results over >= 3 model states. Distinct: (trace hash, final state)."
}

func c05Schema(r *rand.Rand) models.IndexSchema {
	s := models.IndexSchema{"t": {Type: models.IndexTypeText, Text: &models.IndexTextParameters{Analyser: "standard"}}}
	if r.IntN(2) == 0 {
		s["s"] = models.IndexSchemaValue{Type: models.IndexTypeString, String: &models.IndexStringParameters{CaseSensitive: r.IntN(2) == 0}}
	}
	if r.IntN(3) == 0 {
		s["n"] = models.IndexSchemaValue{Type: models.IndexTypeInteger}
	}
	return s
}

func (c05) Generate(r *rand.Rand, tier string) (sim.Config, any) {
	cfg := RandomSimConfig(r)
	return cfg, genVecHistoryParams(r, tier, c05Schema(r), "t")
}

func (c05) Sample(raw json.RawMessage) any              { return sampleVec(raw) }
func (c05) Shrink(raw json.RawMessage) []json.RawMessage { return shrinkVec(raw) }

func (c05) Execute(env *Env) {
	var p vecParams_
	if err := json.Unmarshal(env.Spec.Params, &p); err != nil {
		env.Infra("bad params: %v", err)
		return
	}
	sw := NewStoreWorld()
	sw.Install()
	defer sw.Uninstall()
	col := models.Collection{UserId: "u", Id: "c", UserPlan: models.UserPlan{MaxPointSize: p.MaxPointSize}, IndexSchema: p.Schema}
	model := NewRefShard(p.MaxPointSize)
	states := map[string]bool{}
	rich := 0
	env.RunSim(env.Spec.Sim, func() {
		w := NewShardWorld(env, sw, col, "bbolt", p.CacheSize)
		if err := w.Open(); err != nil {
			env.Infra("open: %v", err)
			return
		}
		defer w.Close()
		for i, op := range p.Ops {
			if !applyOp(env, w, model, i, op) {
				return
			}
			if len(p.Queries[i]) == 0 {
				continue
			}
			states[model.StateKey()] = true
			targets := []*ShardWorld{w}
			names := []string{"warm"}
			if p.ColdEvery > 0 && i%p.ColdEvery == 0 {
				c, err := w.ColdCopy(pick2(i, 0, -1))
				if err != nil {
					env.Violate("spurious-error", "cold-open", "after op %d: cannot open a copy of the file: %v", i, err)
					return
				}
				defer c.Discard()
				targets = append(targets, c)
				names = append(names, "cold copy")
			}
			for qi, req := range p.Queries[i] {
				to := req.Query.Text
				var filter *IDSet
				if to.Filter != nil {
					f, err := model.EvalFilter(p.Schema, *to.Filter)
					if err != nil {
						env.Infra("model filter: %v", err)
						return
					}
					if len(f.May) > 0 {
						env.Stat("skipped-open-filter", 1)
						continue
					}
					filter = &f
				}
				want, nterms := model.EvalText("t", to.Value, to.Operator, filter)
				if nterms == 0 {
					env.Stat("zero-term-queries", 1)
				}
				for ti, t := range targets {
					a := t.Ask(req)
					env.Stat("queries", 1)
					where := "after op " + itoa(i) + " (" + op.Kind + "), " + names[ti] + ", query " + itoa(qi) + " " + jsonStr(req.Query)
					if a.Err != "" {
						env.Violate("spurious-error", "text-search-error", "%s failed: %s", where, a.Err)
						return
					}
					if nterms == 0 && to.Operator == models.OperatorContainsAll {
						// a query that analyses to zero terms: the statement leaves "all of no terms" open
						continue
					}
					if d := CheckTextAnswer(want, a.Items, to.Limit, to.Weight); d != "" {
						env.Violate("wrong-answer", "text:"+names[ti], "%s: %s; got %s", where, d, fmtItems(a.Items))
						return
					}
					if len(a.Items) >= 2 && ti == 0 {
						rich++
					}
				}
			}
		}
	})
	env.Stat("model-states", len(states))
	env.SetNonTrivial(len(states) >= 3 && rich >= 5)
	env.SetStateHash(model.StateKey())
}

func pick2(i int, a, b int64) int64 {
	if i%2 == 0 {
		return a
	}
	return b
}
