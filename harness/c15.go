package harness

import (
	"bytes"
	"encoding/json"
	"errors"
	"fmt"
	"math/rand/v2"
	"sort"
	"strings"
	"time"

	"github.com/google/uuid"
	"github.com/semafind/semadb/cluster"
	"github.com/semafind/semadb/models"
	sim "github.com/semafind/semadb/zzsimrt"
)

// C15 — inserted points are partitioned over shards within limits; quotas are enforced.
type c15Op struct {
	Kind   string `json:"kind"` // insert | create
	Entry  int    `json:"entry"`
	IDs    []int  `json:"ids,omitempty"`
	Pad    int    `json:"pad,omitempty"` // extra bytes per point
	Col    string `json:"col,omitempty"`
	FailAt int    `json:"fail_at,omitempty"` // insert: the n-th shard-level insert RPC of this request is refused cleanly by the shard server (0 = none)
	// every established connection is reset before the request while the cluster is
	// idle (all nodes stay up): the cached rpc clients are dead on next use and must
	// be replaced without the request noticing
	ResetConns bool `json:"reset_conns,omitempty"`
}

type c15Params struct {
	NServers     int     `json:"n_servers"`
	MaxShardPts  int64   `json:"max_shard_points"`
	MaxShardSize int64   `json:"max_shard_size"`
	PointQuota   int64   `json:"point_quota"`
	ColQuota     int     `json:"collection_quota"`
	Ops          []c15Op `json:"ops"`
}

type c15 struct{}

func init() { Register(c15{}) }

func (c15) ID() string { return "C15" }

func (c15) Rule() string {
	return "each run = 1-3 real ClusterNodes over the simulated transport with a per-shard point cap 3-10, a per-shard size cap just above a few points, a per-collection point quota and a per-user collection quota; a seeded sequence of insert requests (0-40 fresh ids, point sizes 30-3000 bytes, entry node per request; optionally one shard-level insert RPC of the request is refused cleanly by the shard server (error reply, not executed) => a failed range; before a quarter of the requests every established connection is reset while the cluster is idle, so the cached rpc clients are dead on next use) and collection creations around the quota boundaries. After every request, from raw dumps of all shard files: every non-failed point is in exactly one shard and failed points in none; the points a request put into one shard are a contiguous run of its id-sorted batch; no shard exceeds the point cap; the collection total (raw and via GetShardsInfo) = previous total + points of non-failed ranges; a request over the point quota, and a creation over the collection quota, is refused with the quota error and leaves every node database and shard file logically unchanged. Non-trivial: >= 2 shards were filled by one request or a quota refusal happened. Distinct: (trace hash, final totals)."
}

func (c15) Generate(r *rand.Rand, tier string) (sim.Config, any) {
	cfg := RandomSimConfig(r)
	cfg.StmtYield = pick(r, []float64{0, 0, 0.02, 0.1}) // statement-level preemption in the handler / cluster packages
	cfg.IdleLimitSec = 3600
	p := c15Params{NServers: 1 + r.IntN(3), MaxShardPts: int64(3 + r.IntN(8)), MaxShardSize: pick(r, []int64{1 << 30, 1 << 30, 70000, 140000}), PointQuota: int64(20 + r.IntN(60)), ColQuota: 1 + r.IntN(3)}
	nops := 4 + r.IntN(8)
	next := 0
	for i := 0; i < nops; i++ {
		if r.IntN(5) == 0 {
			p.Ops = append(p.Ops, c15Op{Kind: "create", Entry: r.IntN(p.NServers), Col: pick(r, []string{"col", "col2", "col3", "col4"})})
			continue
		}
		n := pick(r, []int{0, 1, 2, 5, 9, 17, 30, 40})
		ids := make([]int, n)
		for k := range ids {
			ids[k] = next
			next++
		}
		r.Shuffle(len(ids), func(a, b int) { ids[a], ids[b] = ids[b], ids[a] })
		op := c15Op{Kind: "insert", Entry: r.IntN(p.NServers), IDs: ids, Pad: pick(r, []int{0, 0, 200, 2500})}
		if r.IntN(4) == 0 {
			op.FailAt = 1 + r.IntN(3)
		}
		op.ResetConns = r.IntN(4) == 0
		p.Ops = append(p.Ops, op)
	}
	return cfg, p
}

func (c15) Sample(raw json.RawMessage) any {
	var p c15Params
	json.Unmarshal(raw, &p)
	var ops []string
	for _, o := range p.Ops {
		ops = append(ops, fmt.Sprintf("%s@n%d/%d%s", o.Kind, o.Entry, len(o.IDs), o.Col))
	}
	return map[string]any{"n_servers": p.NServers, "max_shard_points": p.MaxShardPts, "max_shard_size": p.MaxShardSize, "point_quota": p.PointQuota, "collection_quota": p.ColQuota, "ops": ops}
}

func (c15) Shrink(raw json.RawMessage) []json.RawMessage {
	var p c15Params
	json.Unmarshal(raw, &p)
	var out []json.RawMessage
	for i := len(p.Ops) - 1; i >= 0; i-- {
		q := p
		q.Ops = append(append([]c15Op(nil), p.Ops[:i]...), p.Ops[i+1:]...)
		out = append(out, mustJSON(q))
	}
	for i, o := range p.Ops {
		if len(o.IDs) > 1 {
			q := p
			q.Ops = append([]c15Op(nil), p.Ops...)
			no := o
			no.IDs = o.IDs[:len(o.IDs)/2]
			q.Ops[i] = no
			out = append(out, mustJSON(q))
		}
	}
	return out
}

func sumShardInfo(n *cluster.ClusterNode, c models.Collection) (int64, error) {
	infos, err := n.GetShardsInfo(c)
	if err != nil {
		return 0, err
	}
	var sum int64
	for _, s := range infos {
		sum += s.PointCount
	}
	return sum, nil
}

// clusterDigest is the logical content of every node database and shard file.
func clusterDigest(w *ClusterWorld) (string, error) {
	var parts []string
	for _, a := range sortedKeys(w.Nodes) {
		n := w.Nodes[a]
		recs, err := NodeRecords(n.dir)
		if err != nil {
			return "", err
		}
		for _, k := range sortedKeys(recs) {
			parts = append(parts, fmt.Sprintf("%s|rec|%s|%x", a, k, recs[k]))
		}
		files := ShardFiles(n.dir)
		for _, rel := range sortedKeys(files) {
			d, err := DumpFile(files[rel])
			if err != nil {
				return "", err
			}
			parts = append(parts, fmt.Sprintf("%s|shard|%s|%s", a, rel, d.Digest()))
		}
	}
	return strings.Join(parts, "\n"), nil
}

func (c15) Execute(env *Env) {
	var p c15Params
	if err := json.Unmarshal(env.Spec.Params, &p); err != nil {
		env.Infra("bad params: %v", err)
		return
	}
	sw := NewStoreWorld()
	sw.Install()
	defer sw.Uninstall()
	seedUUIDs(env.Spec.Seed)
	defer uuid.SetRand(nil)
	plan := models.UserPlan{Name: "p", MaxCollections: p.ColQuota, MaxCollectionPointCount: p.PointQuota, MaxPointSize: 10000}
	schema := models.IndexSchema{"n": {Type: models.IndexTypeInteger}}
	multi, refusals := 0, 0
	total := 0
	env.RunSim(env.Spec.Sim, func() {
		var net *SimNet
		var w *ClusterWorld
		servers := make([]string, p.NServers)
		for i := range servers {
			servers[i] = NodeAddr(i)
		}
		tmpl := clusterTemplate(p.MaxShardPts, 1, 300)
		tmpl.MaxShardSize = p.MaxShardSize
		net = NewSimNet(nil, 0)
		net.Install()
		defer net.Uninstall()
		w = NewClusterWorld(env, sw, net, tmpl)
		for i := range servers {
			if err := w.StartNode(i, servers); err != nil {
				env.Infra("start node: %v", err)
				return
			}
		}
		created := map[string]bool{}
		create := func(entry, colID string) error {
			var err error
			w.Call(entry, func(n *cluster.ClusterNode) {
				err = n.CreateCollection(models.Collection{UserId: "alice", Id: colID, UserPlan: plan, IndexSchema: schema})
			})
			return err
		}
		if err := create(NodeAddr(0), "col"); err != nil {
			env.Violate("spurious-error", "create-collection", "creating the first collection failed: %v", err)
			return
		}
		created["col"] = true
		for i, op := range p.Ops {
			entry := NodeAddr(op.Entry)
			where := fmt.Sprintf("op %d (%s via %s)", i, op.Kind, entry)
			before, err := clusterDigest(w)
			if err != nil {
				env.Infra("digest: %v", err)
				return
			}
			if op.ResetConns {
				if k := net.ResetIdleConns(); k > 0 {
					env.Stat("idle-connections-reset", k)
					sim.Sleep(time.Second) // the rpc clients' reader goroutines see the reset
				}
			}
			if op.Kind == "create" {
				err := create(entry, op.Col)
				switch {
				case created[op.Col]:
					if !errors.Is(err, cluster.ErrExists) {
						env.Violate("wrong-answer", "create-existing", "%s: creating existing collection %q returned %v", where, op.Col, err)
						return
					}
				case len(created) >= p.ColQuota:
					refusals++
					if !errors.Is(err, cluster.ErrQuotaReached) {
						env.Violate("wrong-answer", "collection-quota-not-enforced", "%s: user has %d collections (quota %d) but creating %q returned %v", where, len(created), p.ColQuota, op.Col, err)
						return
					}
				default:
					if err != nil {
						env.Violate("spurious-error", "create-collection", "%s: creating %q below the quota failed: %v", where, op.Col, err)
						return
					}
					created[op.Col] = true
					continue
				}
				after, _ := clusterDigest(w)
				if after != before {
					env.Violate("wrong-answer", "refused-creation-has-side-effects", "%s: a refused creation changed stored state", where)
					return
				}
				continue
			}
			// ---- insert
			var col models.Collection
			var gerr error
			w.Call(entry, func(n *cluster.ClusterNode) { col, gerr = n.GetCollection("alice", "col") })
			if gerr != nil {
				env.Violate("spurious-error", "get-collection", "%s: %v", where, gerr)
				return
			}
			col.UserPlan = plan
			memberBefore, _, err := shardMembership(w, "alice", "col")
			if err != nil {
				env.Infra("membership: %v", err)
				return
			}
			pts := make([]models.Point, len(op.IDs))
			for k, id := range op.IDs {
				pts[k] = models.Point{Id: PID(id), Data: DocSpec{"n": VI(int64(id)), "pad": VS(strings.Repeat("x", op.Pad))}.Encode()}
			}
			if op.FailAt > 0 {
				net.mu.Lock()
				net.faults = append(net.faults, &NetFault{Kind: "error-before", Method: "RPCInsertPoints", Nth: net.seenTotal("RPCInsertPoints") + op.FailAt, Chunk: -1, anyNode: true})
				net.mu.Unlock()
			}
			var fr []cluster.FailedRange
			var ierr error
			w.Call(entry, func(n *cluster.ClusterNode) { fr, ierr = n.InsertPoints(col, pts) })
			sorted := append([]models.Point(nil), pts...)
			sort.Slice(sorted, func(a, b int) bool { return bytes.Compare(sorted[a].Id[:], sorted[b].Id[:]) < 0 })
			if int64(total+len(pts)) > p.PointQuota {
				refusals++
				if !errors.Is(ierr, cluster.ErrQuotaReached) {
					env.Violate("wrong-answer", "point-quota-not-enforced", "%s: collection holds %d points, quota %d, inserting %d returned err=%v", where, total, p.PointQuota, len(pts), ierr)
					return
				}
				after, _ := clusterDigest(w)
				if after != before {
					env.Violate("wrong-answer", "refused-insert-has-side-effects", "%s: an insert refused for quota changed stored state (records, shard list or points)", where)
					return
				}
				continue
			}
			if ierr != nil {
				env.Violate("spurious-error", "cluster-insert", "%s: insert within quota failed: %v", where, ierr)
				return
			}
			failed := map[uuid.UUID]bool{}
			nfailed := 0
			for _, f := range fr {
				if f.Start < 0 || f.End > len(sorted) || f.Start > f.End {
					env.Violate("wrong-answer", "failed-range-bounds", "%s: failed range [%d,%d) outside the batch of %d", where, f.Start, f.End, len(sorted))
					return
				}
				for k := f.Start; k < f.End; k++ {
					if failed[sorted[k].Id] {
						env.Violate("wrong-answer", "failed-range-overlap", "%s: point listed in two failed ranges", where)
						return
					}
					failed[sorted[k].Id] = true
					nfailed++
				}
			}
			if len(fr) > 0 {
				env.Stat("failed-ranges", len(fr))
			}
			member, _, err := shardMembership(w, "alice", "col")
			if err != nil {
				env.Infra("membership: %v", err)
				return
			}
			perShard := map[string][]int{} // shard -> indices of this batch
			for k, pt := range sorted {
				locs := member[pt.Id]
				switch {
				case failed[pt.Id] && len(locs) > 0:
					env.Violate("wrong-answer", "failed-point-stored", "%s: point %d lies in a failed range but is stored in %v", where, PIDIndex(pt.Id), locs)
					return
				case !failed[pt.Id] && len(locs) != 1:
					env.Violate("wrong-answer", "point-not-in-exactly-one-shard", "%s: point %d is stored in %d shards %v", where, PIDIndex(pt.Id), len(locs), locs)
					return
				}
				if len(locs) == 1 {
					perShard[locs[0]] = append(perShard[locs[0]], k)
				}
			}
			for sh, idx := range detRange(perShard) {
				sort.Ints(idx)
				if idx[len(idx)-1]-idx[0]+1 != len(idx) {
					env.Violate("wrong-answer", "range-not-contiguous", "%s: shard %s received batch positions %v of the id-sorted batch, not a contiguous run", where, sh, idx)
					return
				}
			}
			if len(perShard) >= 2 {
				multi++
			}
			counts := map[string]int{}
			rawTotal := 0
			for id, locs := range detRange(member) {
				for _, l := range locs {
					counts[l]++
				}
				if len(locs) > 0 {
					rawTotal++
				}
				_ = id
			}
			for sh, c := range detRange(counts) {
				if int64(c) > p.MaxShardPts {
					env.Violate("wrong-answer", "shard-over-cap", "%s: shard %s holds %d points, cap %d", where, sh, c, p.MaxShardPts)
					return
				}
			}
			for id, locs := range detRange(memberBefore) {
				if len(member[id]) != len(locs) {
					env.Violate("wrong-answer", "existing-point-moved", "%s: previously stored point %d changed placement", where, PIDIndex(id))
					return
				}
			}
			total += len(pts) - nfailed
			if rawTotal != total {
				env.Violate("wrong-answer", "count-identity", "%s: %d points stored in all shards, expected previous total + non-failed = %d", where, rawTotal, total)
				return
			}
			var infos any
			var sum int64
			var serr error
			w.Call(entry, func(n *cluster.ClusterNode) {
				c2, e := n.GetCollection("alice", "col")
				if e != nil {
					serr = e
					return
				}
				c2.UserPlan = plan
				sum, serr = sumShardInfo(n, c2)
			})
			_ = infos
			if serr != nil {
				env.Violate("spurious-error", "shards-info", "%s: GetShardsInfo failed: %v", where, serr)
				return
			}
			if sum != int64(total) {
				env.Violate("wrong-answer", "count-identity-info", "%s: GetShardsInfo totals %d points, expected %d", where, sum, total)
				return
			}
		}
	})
	env.Stat("multi-shard-requests", multi)
	env.Stat("quota-refusals", refusals)
	env.SetNonTrivial(multi > 0 || refusals > 0)
	env.SetStateHash(fmt.Sprint(total))
}
