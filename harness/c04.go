package harness

import (
	"encoding/json"
	"math/rand/v2"
	"slices"

	"github.com/google/uuid"

	"github.com/semafind/semadb/models"
	sim "github.com/semafind/semadb/zzsimrt"
)

// C04 — flat vector search is exact k-nearest-neighbour search within the filter,
// identical from warm, cache-disabled and cold instances.
type vecParams_ struct {
	Schema       models.IndexSchema       `json:"schema"`
	CacheSize    int64                    `json:"cache_size"`
	MaxPointSize int                      `json:"max_point_size"`
	IDPool       int                      `json:"id_pool"`
	Ops          []Op                     `json:"ops"`
	Queries      [][]models.SearchRequest `json:"queries"` // asked after op i
	ColdEvery    int                      `json:"cold_every"`
	InsertOnly   bool                     `json:"insert_only,omitempty"`
}

type c04 struct{}

func init() { Register(c04{}) }

func (c04) ID() string { return "C04" }

func (c04) Rule() string {
	return "each run = a seeded write history (inserts, vector updates, vector removal, deletes, reopen, cache eviction) on a real shard with a flat vector index (one of the six metrics; quantiser none / binary fixed / binary learned / product, the learned ones with a small trigger so that training happens mid-history) plus filter indexes, under one seeded schedule; after every write seeded flat queries (limits 1..75, weights incl. 0 and negative, pre-filters) are asked of the warm instance and, periodically, of a cache-disabled and of a cold instance opened on copies of the file; each answer must be the exact tie-tolerant limit-NN of the reference model with distances equal to the metric definition (quantised form recomputed from the persisted threshold, or from the persisted product-quantiser centroids and stored codes; the persisted product state itself is checked: every live vector has a well-formed code, and a vector written after training is coded to a nearest centroid per sub-vector) and hybrid = -weight*distance. Non-trivial: >= 5 answers with >= 2 results over >= 3 model states. Distinct: (trace hash, final state)."
}

func c04Schema(r *rand.Rand, quant bool) models.IndexSchema {
	s := models.IndexSchema{"vf": {Type: models.IndexTypeVectorFlat, VectorFlat: genFlatParams(r, 2+r.IntN(4), quant)}}
	if r.IntN(2) == 0 {
		s["s"] = models.IndexSchemaValue{Type: models.IndexTypeString, String: &models.IndexStringParameters{CaseSensitive: true}}
	}
	if r.IntN(2) == 0 {
		s["n"] = models.IndexSchemaValue{Type: models.IndexTypeInteger}
	}
	return s
}

func genVecHistoryParams(r *rand.Rand, tier string, schema models.IndexSchema, vecProp string) vecParams_ {
	p := vecParams_{Schema: schema, MaxPointSize: 3000, IDPool: 12 + r.IntN(20), ColdEvery: 1 + r.IntN(3)}
	p.CacheSize = pick(r, []int64{-1, -1, 0, 4000})
	nops := 4 + r.IntN(8)
	nq := 4
	if tier == "thorough" {
		nops = 8 + r.IntN(16)
		nq = 6
	}
	p.Ops = GenHistory(r, schema, p.MaxPointSize, HistoryOpts{NOps: nops, IDPool: p.IDPool, MaxBatch: 9, AllowReopen: true, PIndexed: 0.85})
	p.Queries = make([][]models.SearchRequest, len(p.Ops))
	for i, op := range p.Ops {
		if op.Kind == "evict" {
			continue
		}
		for k := 0; k < nq; k++ {
			p.Queries[i] = append(p.Queries[i], models.SearchRequest{Query: *genRankQuery(r, schema, vecProp, p.IDPool, true), Select: []string{"*"}})
		}
	}
	return p
}

func (c04) Generate(r *rand.Rand, tier string) (sim.Config, any) {
	cfg := RandomSimConfig(r)
	return cfg, genVecHistoryParams(r, tier, c04Schema(r, true), "vf")
}

func sampleVec(raw json.RawMessage) any {
	var p vecParams_
	json.Unmarshal(raw, &p)
	kinds := []string{}
	for _, o := range p.Ops {
		kinds = append(kinds, o.Kind)
	}
	var q any
	for _, qs := range p.Queries {
		if len(qs) > 0 {
			q = compactQuery(qs[0])
			break
		}
	}
	return map[string]any{"schema": p.Schema, "cache_size": p.CacheSize, "ops": kinds, "first_query": q, "first_op": firstOp(p.Ops)}
}

func (c04) Sample(raw json.RawMessage) any { return sampleVec(raw) }

func shrinkVec(raw json.RawMessage) []json.RawMessage {
	var p vecParams_
	json.Unmarshal(raw, &p)
	var out []json.RawMessage
	for n := len(p.Ops) / 2; n >= 1 && n < len(p.Ops); n = n + max(1, (len(p.Ops)-n)/2) {
		q := p
		q.Ops, q.Queries = p.Ops[:n], p.Queries[:n]
		out = append(out, mustJSON(q))
	}
	for i := len(p.Ops) - 1; i >= 0; i-- {
		q := p
		q.Ops = append(append([]Op(nil), p.Ops[:i]...), p.Ops[i+1:]...)
		q.Queries = append(append([][]models.SearchRequest(nil), p.Queries[:i]...), p.Queries[i+1:]...)
		out = append(out, mustJSON(q))
	}
	for i := range p.Queries {
		if len(p.Queries[i]) > 1 {
			for k := range p.Queries[i] {
				q := p
				q.Queries = append([][]models.SearchRequest(nil), p.Queries...)
				q.Queries[i] = []models.SearchRequest{p.Queries[i][k]}
				out = append(out, mustJSON(q))
			}
		}
	}
	for i := range p.Ops {
		for j := range p.Ops[i].Points {
			q := p
			q.Ops = append([]Op(nil), p.Ops...)
			o := q.Ops[i]
			o.Points = append(append([]PointSpec(nil), o.Points[:j]...), o.Points[j+1:]...)
			q.Ops[i] = o
			out = append(out, mustJSON(q))
		}
	}
	return out
}

func (c04) Shrink(raw json.RawMessage) []json.RawMessage { return shrinkVec(raw) }

// rankOptions extracts the common parts of a vector query.
func rankOptions(q models.Query) (vec []float32, limit int, filter *models.Query, weight *float32) {
	switch {
	case q.VectorFlat != nil:
		return q.VectorFlat.Vector, q.VectorFlat.Limit, q.VectorFlat.Filter, q.VectorFlat.Weight
	case q.VectorVamana != nil:
		return q.VectorVamana.Vector, q.VectorVamana.Limit, q.VectorVamana.Filter, q.VectorVamana.Weight
	}
	return nil, 0, nil, nil
}

func indexBucketName(schema models.IndexSchema, prop string) string {
	return "index/" + schema[prop].Type + "/" + prop
}

func vecIndexInfo(sv models.IndexSchemaValue) (int, string, *models.Quantizer) {
	if sv.Type == models.IndexTypeVectorFlat {
		return int(sv.VectorFlat.VectorSize), sv.VectorFlat.DistanceMetric, sv.VectorFlat.Quantizer
	}
	return int(sv.VectorVamana.VectorSize), sv.VectorVamana.DistanceMetric, sv.VectorVamana.Quantizer
}

// pqTracker knows which points had their vector written after the product
// quantiser was trained (their codes must be nearest-centroid codes).
type pqTracker struct {
	trained bool
	prev    map[uuid.UUID][]float32
	// training trigger: couldTrain latches once the number of stored vectors (plus the
	// entry node of a graph index, which the vector store counts too) has reached the
	// trigger threshold after some write; mustTrain once the vectors alone have
	couldTrain, mustTrain bool
}

// quantTrigger returns the trigger threshold of a learned quantiser (0 = none).
func quantTrigger(q *models.Quantizer) int {
	switch {
	case q == nil:
		return 0
	case q.Type == models.QuantizerBinary && q.Binary != nil && q.Binary.Threshold == nil:
		return q.Binary.TriggerThreshold
	case q.Type == models.QuantizerProduct && q.Product != nil:
		return q.Product.TriggerThreshold
	}
	return 0
}

func (t *pqTracker) step(m *RefShard, prop string, dim int, vm VecMode) map[uuid.UUID]bool {
	fresh := map[uuid.UUID]bool{}
	cur := map[uuid.UUID][]float32{}
	for id, d := range detRange(m.Docs) {
		v, ok := docVector(d, prop, dim)
		if !ok {
			continue
		}
		cur[id] = v
		if old, ok := t.prev[id]; !ok || !slices.Equal(old, v) {
			fresh[id] = true
		}
	}
	was := t.trained
	t.trained = vm.PQ != nil
	t.prev = cur
	if !was {
		return map[uuid.UUID]bool{} // trained during this step: every point took part in training
	}
	return fresh
}

// vecModeAt derives the distance in force after op i from the committed file and
// checks the persisted product-quantiser state; false = a violation was recorded.
func vecModeAt(env *Env, m *RefShard, schema models.IndexSchema, prop string, dump Dump, tr *pqTracker, i int) (VecMode, bool) {
	dim, metric, quant := vecIndexInfo(schema[prop])
	vm := vectorModeDump(dim, metric, quant, dump, indexBucketName(schema, prop))
	fresh := tr.step(m, prop, dim, vm)
	// the quantiser is trained by the first write that leaves triggerThreshold vectors in
	// the index, not before and not later (called after every operation of the history)
	if T := quantTrigger(quant); T > 0 && metric != models.DistanceHamming && metric != models.DistanceJaccard {
		nvec := 0
		for _, d := range detRange(m.Docs) {
			if _, ok := docVector(d, prop, dim); ok {
				nvec++
			}
		}
		slack := 0
		if schema[prop].Type == models.IndexTypeVectorVamana {
			slack = 1
		}
		if nvec+slack >= T {
			tr.couldTrain = true
		}
		if nvec >= T {
			tr.mustTrain = true
		}
		b := dump[indexBucketName(schema, prop)]
		_, t1 := b["_binaryQuantizerThreshold"]
		_, t2 := b["_productQuantizerFlatCentroids"]
		switch trained := t1 || t2; {
		case trained && !tr.couldTrain:
			env.Violate("wrong-answer", "quantiser-trained-early", "after op %d: the quantiser of %q is trained although only %d vectors are stored (triggerThreshold %d)", i, prop, nvec, T)
			return vm, false
		case !trained && tr.mustTrain:
			env.Violate("wrong-answer", "quantiser-not-trained", "after op %d: %d vectors have been stored (triggerThreshold %d) but the quantiser of %q is not trained", i, nvec, T, prop)
			return vm, false
		}
	}
	if vm.PQ != nil {
		env.Stat("mode-product", 1)
		env.Stat("pq-fresh-codes", len(fresh))
		if msg := m.CheckPQ(prop, dim, vm, fresh); msg != "" {
			env.Violate("wrong-answer", "pq-state", "after op %d: product quantiser state: %s", i, msg)
			return vm, false
		}
	}
	return vm, true
}

// pqCosineUntrained: product quantiser configured on a cosine index and not yet
// trained. product.go applies squared euclidean from the start (documented there),
// which C03/C04 do not allow before training; reported under its own signature.
func pqCosineUntrained(metric string, quant *models.Quantizer, vm VecMode) bool {
	return quant != nil && quant.Type == models.QuantizerProduct && metric == models.DistanceCosine && vm.PQ == nil && vm.Float != ""
}

func (c04) Execute(env *Env) {
	var p vecParams_
	if err := json.Unmarshal(env.Spec.Params, &p); err != nil {
		env.Infra("bad params: %v", err)
		return
	}
	sw := NewStoreWorld()
	sw.Install()
	defer sw.Uninstall()
	col := models.Collection{UserId: "u", Id: "c", UserPlan: models.UserPlan{MaxPointSize: p.MaxPointSize}, IndexSchema: p.Schema}
	model := NewRefShard(p.MaxPointSize)
	states := map[string]bool{}
	rich := 0
	dim, metric, quant := vecIndexInfo(p.Schema["vf"])
	var tr pqTracker
	env.RunSim(env.Spec.Sim, func() {
		w := NewShardWorld(env, sw, col, "bbolt", p.CacheSize)
		if err := w.Open(); err != nil {
			env.Infra("open: %v", err)
			return
		}
		defer w.Close()
		for i, op := range p.Ops {
			if !applyOp(env, w, model, i, op) {
				return
			}
			isPQ := quantTrigger(quant) > 0 // bookkeeping of the training trigger needs every operation
			if len(p.Queries[i]) == 0 && !isPQ {
				continue
			}
			states[model.StateKey()] = true
			dump, err := DumpFile(w.Path)
			if err != nil {
				env.Infra("dump: %v", err)
				return
			}
			vm, ok := vecModeAt(env, model, p.Schema, "vf", dump, &tr, i)
			if !ok {
				return
			}
			if len(p.Queries[i]) == 0 {
				continue
			}
			if vm.PQ != nil {
			} else if vm.Bit != "" {
				env.Stat("mode-bits", 1)
			} else {
				env.Stat("mode-float", 1)
			}
			targets := []*ShardWorld{w}
			names := []string{"warm"}
			if p.ColdEvery > 0 && i%p.ColdEvery == 0 {
				for _, cs := range []int64{0, -1} {
					c, err := w.ColdCopy(cs)
					if err != nil {
						env.Violate("spurious-error", "cold-open", "after op %d: cannot open a copy of the file: %v", i, err)
						return
					}
					defer c.Discard()
					targets = append(targets, c)
					names = append(names, map[int64]string{0: "cache-disabled copy", -1: "cold copy"}[cs])
				}
			}
			for qi, req := range p.Queries[i] {
				qvec, limit, fq, weight := rankOptions(req.Query)
				var filter *IDSet
				if fq != nil {
					f, err := model.EvalFilter(p.Schema, *fq)
					if err != nil {
						env.Infra("model filter: %v", err)
						return
					}
					if len(f.May) > 0 {
						env.Stat("skipped-open-filter", 1)
						continue
					}
					filter = &f
				}
				want, err := model.VectorCandidates("vf", dim, vm, qvec, filter)
				if err != nil {
					env.Infra("model distance: %v", err)
					return
				}
				for ti, t := range targets {
					a := t.Ask(req)
					env.Stat("queries", 1)
					where := "after op " + itoa(i) + " (" + op.Kind + "), " + names[ti] + ", query " + itoa(qi) + " " + jsonStr(req.Query)
					if a.Err != "" {
						env.Violate("spurious-error", "flat-search-error", "%s failed: %s", where, a.Err)
						return
					}
					if d := CheckValidRanked(want, a.Items, limit, weight, vm.Opaque); d != "" {
						if pqCosineUntrained(metric, quant, vm) {
							if alt, err := model.VectorCandidates("vf", dim, VecMode{Float: models.DistanceEuclidean}, qvec, filter); err == nil &&
								CheckValidRanked(alt, a.Items, limit, weight, false) == "" && CheckExactTopK(alt, a.Items, limit) == "" {
								env.Violate("wrong-answer", "product-cosine-untrained-reports-euclidean", "%s: cosine index with an untrained product quantiser reports squared euclidean distances: %s; got %s", where, d, fmtItems(a.Items))
								return
							}
						}
						env.Violate("wrong-answer", "flat-invalid:"+names[ti], "%s: %s; got %s", where, d, fmtItems(a.Items))
						return
					}
					if d := CheckExactTopK(want, a.Items, limit); d != "" {
						env.Violate("wrong-answer", "flat-not-exact:"+names[ti], "%s: %s; got %s", where, d, fmtItems(a.Items))
						return
					}
					if len(a.Items) >= 2 && ti == 0 {
						rich++
					}
				}
			}
		}
	})
	env.Stat("model-states", len(states))
	env.SetNonTrivial(len(states) >= 3 && rich >= 5)
	env.SetStateHash(model.StateKey())
}
