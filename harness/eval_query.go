package harness

import (
	"fmt"
	"math"
	"sort"

	"github.com/google/uuid"
	"github.com/semafind/semadb/models"
)

// Evaluation of a whole query tree by the reference model (C06): the result
// set is the union / intersection of the sub-results, a point found by several
// ranking sub-queries carries the sum of their weighted contributions.

type RankedID struct {
	ID     uuid.UUID
	Hybrid float64
}

type QueryResult struct {
	Set       map[uuid.UUID]bool
	Ranked    []RankedID // in the order the sub-results produced them (not yet globally sorted for leaves: sorted by definition)
	Ambiguous string     // non-empty: the statement does not pin the answer (tie at a top-k cut, open filter) — skip exact comparison
}

// QueryEnv carries what the model needs to know about indexes.
type QueryEnv struct {
	Schema models.IndexSchema
	Dump   Dump // committed file content (persisted quantiser parameters); may be nil
}

func (m *RefShard) evalRankLeaf(qe QueryEnv, q models.Query) (QueryResult, error) {
	res := QueryResult{Set: map[uuid.UUID]bool{}}
	sv := qe.Schema[q.Property]
	var want map[uuid.UUID]float64 // id -> "distance-like" value (smaller is better)
	var limit int
	var contrib func(v float64) float64
	var fq *models.Query
	switch sv.Type {
	case models.IndexTypeVectorFlat, models.IndexTypeVectorVamana:
		qvec, lim, f, weight := rankOptions(q)
		limit, fq = lim, f
		w := 1.0
		if weight != nil {
			w = float64(*weight)
		}
		contrib = func(d float64) float64 { return -w * d }
		dim, metric, quant := vecIndexInfo(sv)
		vm := vectorModeDump(dim, metric, quant, qe.Dump, indexBucketName(qe.Schema, q.Property))
		if vm.Opaque || vm.PQ != nil {
			// composite score checks use one relative tolerance; product-quantised distances
			// (sums over arbitrary float32 centroids) are judged by C03 / C04 only
			res.Ambiguous = "product-quantised distances"
		}
		if pqCosineUntrained(metric, quant, vm) {
			vm = VecMode{Float: models.DistanceEuclidean} // the quantiser's documented substitute; C03/C04 own the finding
		}
		var filter *IDSet
		if fq != nil {
			fr, err := m.EvalQuery(qe, *fq)
			if err != nil {
				return res, err
			}
			if fr.Ambiguous != "" {
				res.Ambiguous = fr.Ambiguous
			}
			filter = &IDSet{Must: fr.Set}
		}
		var err error
		want, err = m.VectorCandidates(q.Property, dim, vm, qvec, filter)
		if err != nil {
			return res, err
		}
	case models.IndexTypeText:
		to := q.Text
		limit, fq = to.Limit, to.Filter
		w := 1.0
		if to.Weight != nil {
			w = float64(*to.Weight)
		}
		contrib = func(negScore float64) float64 { return w * -negScore }
		var filter *IDSet
		if fq != nil {
			fr, err := m.EvalQuery(qe, *fq)
			if err != nil {
				return res, err
			}
			if fr.Ambiguous != "" {
				res.Ambiguous = fr.Ambiguous
			}
			filter = &IDSet{Must: fr.Set}
		}
		scores, nterms := m.EvalText(q.Property, to.Value, to.Operator, filter)
		if nterms == 0 && to.Operator == models.OperatorContainsAll {
			res.Ambiguous = "text query analyses to zero terms"
		}
		want = map[uuid.UUID]float64{}
		for id, s := range detRange(scores) {
			want[id] = -s
		}
	default:
		return res, fmt.Errorf("not a ranking index: %s", sv.Type)
	}
	type cand struct {
		id uuid.UUID
		d  float64
	}
	cs := make([]cand, 0, len(want))
	for id, d := range detRange(want) {
		cs = append(cs, cand{id, d})
	}
	sort.Slice(cs, func(i, j int) bool {
		if cs[i].d != cs[j].d {
			return cs[i].d < cs[j].d
		}
		return PIDIndex(cs[i].id) < PIDIndex(cs[j].id)
	})
	if len(cs) > limit {
		if closeF(cs[limit-1].d, cs[limit].d) {
			res.Ambiguous = "tie at the top-k cut of a ranking sub-query"
		}
		cs = cs[:limit]
	}
	for _, c := range cs {
		res.Set[c.id] = true
		res.Ranked = append(res.Ranked, RankedID{ID: c.id, Hybrid: contrib(c.d)})
	}
	return res, nil
}

// EvalQuery evaluates any query tree.
func (m *RefShard) EvalQuery(qe QueryEnv, q models.Query) (QueryResult, error) {
	switch q.Property {
	case "_and", "_or":
		subs := q.And
		if q.Property == "_or" {
			subs = q.Or
		}
		var parts []QueryResult
		amb := ""
		for _, s := range subs {
			r, err := m.EvalQuery(qe, s)
			if err != nil {
				return QueryResult{}, err
			}
			if r.Ambiguous != "" {
				amb = r.Ambiguous
			}
			parts = append(parts, r)
		}
		if len(parts) == 1 {
			parts[0].Ambiguous = amb
			return parts[0], nil
		}
		out := QueryResult{Set: map[uuid.UUID]bool{}, Ambiguous: amb}
		if q.Property == "_or" {
			for _, p := range parts {
				for id := range detRange(p.Set) {
					out.Set[id] = true
				}
			}
		} else {
			for id := range detRange(parts[0].Set) {
				all := true
				for _, p := range parts[1:] {
					if !p.Set[id] {
						all = false
						break
					}
				}
				if all {
					out.Set[id] = true
				}
			}
		}
		idx := map[uuid.UUID]int{}
		for _, p := range parts {
			for _, r := range p.Ranked {
				if !out.Set[r.ID] {
					continue
				}
				if i, ok := idx[r.ID]; ok {
					out.Ranked[i].Hybrid += r.Hybrid
				} else {
					idx[r.ID] = len(out.Ranked)
					out.Ranked = append(out.Ranked, r)
				}
			}
		}
		sort.SliceStable(out.Ranked, func(i, j int) bool { return out.Ranked[i].Hybrid > out.Ranked[j].Hybrid })
		return out, nil
	}
	if q.Property != "_id" {
		switch qe.Schema[q.Property].Type {
		case models.IndexTypeVectorFlat, models.IndexTypeVectorVamana, models.IndexTypeText:
			return m.evalRankLeaf(qe, q)
		}
	}
	f, err := m.EvalFilter(qe.Schema, q)
	if err != nil {
		return QueryResult{}, err
	}
	out := QueryResult{Set: f.Must}
	if len(f.May) > 0 {
		out.Ambiguous = "filter on zeros of opposite sign"
	}
	return out, nil
}

// ---- select / sort / paging ------------------------------------------------

// Project computes what a select list must return for a stored document.
func Project(d Doc, sel []string) Doc {
	if len(sel) == 0 {
		return nil
	}
	if sel[0] == "*" {
		return cloneDoc(d)
	}
	out := Doc{}
	for _, p := range sel {
		if p == "*" {
			return cloneDoc(d)
		}
		v, ok := Lookup(d, p)
		if !ok {
			continue
		}
		cur := out
		start := 0
		for i := 0; i <= len(p); i++ {
			if i == len(p) || p[i] == '.' {
				seg := p[start:i]
				if i == len(p) {
					cur[seg] = cloneAny(v)
					break
				}
				nxt, ok := cur[seg].(map[string]any)
				if !ok {
					nxt = map[string]any{}
					cur[seg] = nxt
				}
				cur = nxt
				start = i + 1
			}
		}
	}
	return out
}

func kindRank(v any) int {
	switch v.(type) {
	case int64, int, int8, int16, int32:
		return 1
	case float64, float32:
		return 2
	case string:
		return 3
	}
	return 9
}

func compareVals(a, b any) int {
	ka, kb := kindRank(a), kindRank(b)
	if ka != kb {
		return 0 // mixed kinds under one key are not generated; treat as tie
	}
	switch x := a.(type) {
	case int64:
		return cmp3(x, b.(int64))
	case float64:
		return cmp3(x, b.(float64))
	case string:
		return cmp3(x, b.(string))
	}
	return 0
}

// SortCompare is the documented multi-key comparator: missing values last.
func SortCompare(a, b Doc, keys []models.SortOption) int {
	for _, k := range keys {
		av, aok := Lookup(a, k.Property)
		bv, bok := Lookup(b, k.Property)
		switch {
		case aok && !bok:
			return -1
		case !aok && bok:
			return 1
		case !aok && !bok:
			continue
		}
		c := compareVals(av, bv)
		if k.Descending {
			c = -c
		}
		if c != 0 {
			return c
		}
	}
	return 0
}

// TotalPreorder describes the order the full result list must respect.
type orderedItem struct {
	id     uuid.UUID
	ranked bool
	hybrid float64
	doc    Doc // projected document (sort keys are read from selected fields)
}

func lessEq(a, b orderedItem, sortKeys []models.SortOption) (less, equal bool) {
	if len(sortKeys) > 0 {
		c := SortCompare(a.doc, b.doc, sortKeys)
		return c < 0, c == 0
	}
	if a.ranked != b.ranked {
		return a.ranked, false
	}
	if !a.ranked {
		return false, true
	}
	if closeF(a.hybrid, b.hybrid) {
		return false, true
	}
	return a.hybrid > b.hybrid, false
}

// CheckPage verifies that page is the slice [offset, offset+limit) of some
// total order consistent with the required preorder over all.
func CheckPage(all []orderedItem, page []Item, sortKeys []models.SortOption, offset, limit int) string {
	n := len(all)
	wantLen := n - offset
	if wantLen < 0 {
		wantLen = 0
	}
	if limit > 0 && wantLen > limit {
		wantLen = limit
	}
	if len(page) != wantLen {
		return fmt.Sprintf("page has %d results, expected %d (total %d, offset %d, limit %d)", len(page), wantLen, n, offset, limit)
	}
	byID := map[uuid.UUID]orderedItem{}
	for _, it := range all {
		byID[it.id] = it
	}
	seen := map[uuid.UUID]bool{}
	for i, p := range page {
		id := PID(p.ID)
		x, ok := byID[id]
		if !ok {
			return fmt.Sprintf("id %d is not part of the result set", p.ID)
		}
		if seen[id] {
			return fmt.Sprintf("id %d appears twice", p.ID)
		}
		seen[id] = true
		strictlyLess, lessOrEqual := 0, 0
		for _, y := range all {
			l, e := lessEq(y, x, sortKeys)
			if l {
				strictlyLess++
				lessOrEqual++
			} else if e {
				lessOrEqual++
			}
		}
		pos := offset + i
		if pos < strictlyLess || pos > lessOrEqual-1 {
			return fmt.Sprintf("id %d at position %d of the overall order, but %d results must precede it and it can be at most at position %d", p.ID, pos, strictlyLess, lessOrEqual-1)
		}
	}
	return ""
}

func hybridOf(r QueryResult) map[uuid.UUID]float64 {
	out := map[uuid.UUID]float64{}
	for _, x := range r.Ranked {
		out[x.ID] = x.Hybrid
	}
	return out
}

var _ = math.Abs
