package harness

import (
	"encoding/json"
	"fmt"
	"math/rand/v2"
	"os"
	"path/filepath"
	"strings"
	"time"

	"github.com/semafind/semadb/cluster"
	"github.com/semafind/semadb/models"
	"github.com/semafind/semadb/shard"
	sim "github.com/semafind/semadb/zzsimrt"
)

// C12 — shard loading, idle unloading and collection deletion are safe and deadlock-free.
type c12Step struct {
	Kind    string `json:"kind"`  // request | delete | sleep
	Shard   int    `json:"shard"` // request: which shard
	Work    string `json:"work"`  // info | insert | search
	Yields  int    `json:"yields"`
	SleepMs int    `json:"sleep_ms"`
}

type c12Params struct {
	TimeoutSec int         `json:"timeout_sec"`
	Backups    bool        `json:"backups"`
	// a stray "zz-junk.backup" file lies in every shard directory: every backup attempt
	// of the idle unload then reports an error (the unload must still complete)
	BackupObstacle bool `json:"backup_obstacle,omitempty"`
	CacheSize  int64       `json:"cache_size"`
	NShards    int         `json:"n_shards"`
	Tasks      [][]c12Step `json:"tasks"`
}

type c12 struct{}

func init() { Register(c12{}) }

func (c12) ID() string { return "C12" }

func (c12) Rule() string {
	return "each run = the real ShardManager with real shards on real bbolt files under the fake clock: 2-4 request tasks issue DoWithShard calls (callback = yields + Info / small insert / search) on 1-2 shards with seeded sleeps in between, 0-2 tasks call DeleteCollectionShards, idle timeout 1-3 simulated seconds, backups on or off (and, in half of the runs with backups, a stray file that makes every backup attempt report an error); the scheduler interleaves at every lock, channel, timer and storage operation and may advance simulated time at any step, so the idle timer fires during requests and during deletions. Oracle: no storage operation on a closed store and no callback on a closed shard (storage proxy), a database file is never open twice at once (registry), no directory removed while a store below it is open (file-system hook), DoWithShard fails only with the clean 'already closed' / 'could not load shard' errors, no deadlock (lock-waiter tracking; simulated time may advance freely), and after the last fault a request on every shard completes successfully within a bounded number of steps. Non-trivial: an idle unload or a deletion happened while another task was between load and completion of a request. Distinct: trace hash."
}

func (c12) Generate(r *rand.Rand, tier string) (sim.Config, any) {
	cfg := RandomSimConfig(r)
	cfg.StmtYield = pick(r, []float64{0, 0, 0.02, 0.1}) // statement-level preemption in the handler / cluster packages
	cfg.TimeJumpProb = pick(r, []float64{0, 0.02, 0.05, 0.15})
	cfg.IdleLimitSec = 3600
	p := c12Params{TimeoutSec: 1 + r.IntN(3), Backups: r.IntN(2) == 0, CacheSize: pick(r, []int64{-1, 0, 5000}), NShards: 1 + r.IntN(2)}
	p.BackupObstacle = p.Backups && r.IntN(2) == 0
	nreq := 2 + r.IntN(3)
	for t := 0; t < nreq; t++ {
		var steps []c12Step
		for k := 0; k < 2+r.IntN(4); k++ {
			steps = append(steps, c12Step{Kind: "request", Shard: r.IntN(p.NShards), Work: pick(r, []string{"info", "insert", "search"}), Yields: r.IntN(4)})
			steps = append(steps, c12Step{Kind: "sleep", SleepMs: pick(r, []int{0, 100, 400, 900, 1000, 1100, 2000, 3100})})
		}
		p.Tasks = append(p.Tasks, steps)
	}
	for t := 0; t < r.IntN(3); t++ {
		var steps []c12Step
		for k := 0; k < 1+r.IntN(2); k++ {
			steps = append(steps, c12Step{Kind: "sleep", SleepMs: pick(r, []int{0, 500, 900, 1000, 1100, 2100, 3000})})
			steps = append(steps, c12Step{Kind: "delete"})
		}
		p.Tasks = append(p.Tasks, steps)
	}
	return cfg, p
}

func (c12) Sample(raw json.RawMessage) any {
	var p c12Params
	json.Unmarshal(raw, &p)
	return p
}

func (c12) Shrink(raw json.RawMessage) []json.RawMessage {
	var p c12Params
	json.Unmarshal(raw, &p)
	var out []json.RawMessage
	for i := range p.Tasks {
		if len(p.Tasks) > 1 {
			q := p
			q.Tasks = append(append([][]c12Step(nil), p.Tasks[:i]...), p.Tasks[i+1:]...)
			out = append(out, mustJSON(q))
		}
	}
	for i, t := range p.Tasks {
		for j := len(t) - 1; j >= 0; j-- {
			if len(t) > 1 {
				q := p
				q.Tasks = append([][]c12Step(nil), p.Tasks...)
				q.Tasks[i] = append(append([]c12Step(nil), t[:j]...), t[j+1:]...)
				out = append(out, mustJSON(q))
			}
		}
	}
	if p.NShards > 1 {
		q := p
		q.NShards = 1
		q.Tasks = nil
		for _, t := range p.Tasks {
			var nt []c12Step
			for _, s := range t {
				s.Shard = 0
				nt = append(nt, s)
			}
			q.Tasks = append(q.Tasks, nt)
		}
		out = append(out, mustJSON(q))
	}
	if p.Backups {
		q := p
		q.Backups = false
		out = append(out, mustJSON(q))
	}
	return out
}

func (c12) Execute(env *Env) {
	var p c12Params
	if err := json.Unmarshal(env.Spec.Params, &p); err != nil {
		env.Infra("bad params: %v", err)
		return
	}
	sw := NewStoreWorld()
	sw.Install()
	defer sw.Uninstall()
	root := filepath.Join(env.Dir, "node")
	os.MkdirAll(root, 0755)
	col := models.Collection{UserId: "u", Id: "c", UserPlan: models.UserPlan{MaxPointSize: 3000},
		IndexSchema: models.IndexSchema{"s": {Type: models.IndexTypeString, String: &models.IndexStringParameters{}},
			"vf": {Type: models.IndexTypeVectorFlat, VectorFlat: &models.IndexVectorFlatParameters{VectorSize: 2, DistanceMetric: models.DistanceEuclidean}}}}
	if p.Backups {
		col.UserPlan.ShardBackupFrequency, col.UserPlan.ShardBackupCount = 1, 2
	}
	inRequest := 0 // tasks between DoWithShard call and return
	overlapEvents := 0
	sim.FSHook = func(op, path string, size int) (int, error) {
		if op == "removeall" {
			if open := sw.OpenUnder(path); len(open) > 0 {
				env.Violate("lifecycle", "remove-while-open", "directory %s removed while a store below it is still open: %v", strings.TrimPrefix(path, env.Dir), open)
			}
			if inRequest > 0 {
				overlapEvents++
			}
		}
		return 0, nil
	}
	defer func() { sim.FSHook = nil }()
	nextID := 0
	env.RunSim(env.Spec.Sim, func() {
		sm := cluster.NewShardManager(cluster.ShardManagerConfig{RootDir: root, ShardTimeout: p.TimeoutSec, MaxCacheSize: p.CacheSize})
		request := func(who string, shardIdx int, work string, yields int) error {
			inRequest++
			defer func() { inRequest-- }()
			return sm.DoWithShard(col, fmt.Sprintf("shard%d", shardIdx), func(s *shard.Shard) error {
				if p.BackupObstacle {
					os.WriteFile(filepath.Join(root, cluster.USERCOLSDIR, col.UserId, col.Id, fmt.Sprintf("shard%d", shardIdx), "zz-junk.backup"), []byte("x"), 0644)
				}
				for i := 0; i < yields; i++ {
					sim.YieldAlways("c12:in-request")
				}
				switch work {
				case "info":
					_, err := s.Info()
					return err
				case "insert":
					nextID++
					return s.InsertPoints([]models.Point{{Id: PID(nextID), Data: DocSpec{"s": VS("x"), "vf": VV([]float32{float32(nextID), 1})}.Encode()}})
				default:
					_, err := s.SearchPoints(models.SearchRequest{Query: models.Query{Property: "vf", VectorFlat: &models.SearchVectorFlatOptions{Vector: []float32{1, 1}, Operator: models.OperatorNear, Limit: 3}}})
					return err
				}
			})
		}
		checkErr := func(who string, err error) {
			if err == nil {
				return
			}
			msg := err.Error()
			if strings.Contains(msg, "is already closed") || strings.HasPrefix(msg, "could not load shard") {
				env.Stat("clean-errors", 1)
				return
			}
			env.Violate("lifecycle", "unclean-error:"+errSig(err), "%s: request failed with an error that is not the clean closed/unloadable answer: %v", who, err)
		}
		done := make(chan int, len(p.Tasks))
		for ti, steps := range p.Tasks {
			sim.Go("c12:task", func() {
				defer func() { done <- ti }()
				for si, st := range steps {
					who := fmt.Sprintf("task %d step %d (%s)", ti, si, st.Kind)
					switch st.Kind {
					case "request":
						checkErr(who, request(who, st.Shard, st.Work, st.Yields))
					case "sleep":
						if st.SleepMs > 0 {
							sim.Sleep(time.Duration(st.SleepMs) * time.Millisecond)
						}
					case "delete":
						if inRequest > 0 {
							overlapEvents++
						}
						if _, err := sm.DeleteCollectionShards(col); err != nil {
							env.Violate("lifecycle", "delete-error", "%s: DeleteCollectionShards failed: %v", who, err)
						}
					}
					if env.Violated() {
						return
					}
				}
			})
		}
		for range p.Tasks {
			sim.Recv("c12:root", (<-chan int)(done))
		}
		if env.Violated() {
			return
		}
		// bounded liveness after the last fault: every shard can be used again
		sim.StopTimeJumps()
		for s := 0; s < p.NShards; s++ {
			// a request may still meet a shard that is being unloaded right now: that is a clean error, retry after the timeout
			var err error
			for attempt := 0; attempt < 3; attempt++ {
				err = request("liveness probe", s, "insert", 0)
				if err == nil {
					break
				}
				checkErr("liveness probe", err)
				sim.Sleep(time.Duration(p.TimeoutSec+1) * time.Second)
			}
			if err != nil {
				env.Violate("liveness", "no-progress-after-quiescence", "after all tasks ended shard %d still cannot be used: %v", s, err)
				return
			}
		}
		// let the idle timers fire once more so that every shard gets unloaded cleanly
		sim.Sleep(time.Duration(p.TimeoutSec+2) * time.Second)
	})
	if n := sw.Stats["use-after-close"]; n > 0 && !env.Violated() {
		env.Violate("lifecycle", "store-used-after-close", "%d storage transactions were started on a store that had been closed", n)
	}
	if n := sw.Stats["double-open"]; n > 0 && !env.Violated() {
		env.Violate("lifecycle", "double-open", "a database file was opened %d times while it was still open", n)
	}
	env.Stat("overlap-events", overlapEvents)
	env.SetNonTrivial(overlapEvents > 0 || env.res.Outcome.TimeJumps > 0)
}
