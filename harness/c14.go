package harness

import (
	"bytes"
	"encoding/json"
	"errors"
	"fmt"
	"math/rand/v2"
	"os"
	"path/filepath"
	"sort"
	"strings"
	"time"

	"github.com/google/uuid"
	"github.com/semafind/semadb/cluster"
	"github.com/semafind/semadb/models"
	sim "github.com/semafind/semadb/zzsimrt"
)

// C14 — start-up rebalancing moves every record and shard to its owner without loss.
type c14Fault struct {
	Kind  string `json:"kind"`  // reset-before reset-after stall kill-receiver-before kill-receiver-after kill-sender short-write-kill error-before
	Chunk int    `json:"chunk"` // chunk index of the shard transfer it hits
	Round int    `json:"round"` // synchronisation round in which it is armed (0-based)
}

type c14Params struct {
	OldServers []int      `json:"old_servers"`
	NewServers []int      `json:"new_servers"`
	Users      []string   `json:"users"`
	Cols       int        `json:"collections"`
	Points     int        `json:"points"`
	ShardCap   int64      `json:"shard_cap"`
	ChunkMode  string     `json:"chunk_mode"` // equal half double small odd
	PadBytes   int        `json:"pad_bytes"`
	Faults     []c14Fault `json:"faults"`
	RpcRetries int        `json:"rpc_retries"`
}

type c14 struct{}

func init() { Register(c14{}) }

func (c14) ID() string { return "C14" }

func (c14) Rule() string {
	return "each run = a cluster of 1-3 real nodes populated through the normal API (1-2 users, 1-2 collections, several shards per collection through a small per-shard cap, optional padding so that shard files differ in size), stopped, and restarted with a different server list (grow, shrink, replace, permute): every node that holds data and every new node runs the real start-up Sync() concurrently over the simulated transport, with the chunk size knob set to the shard file size, half, double, a small value or an odd value. Faults per plan, hitting the chunk RPC of a shard transfer at a chosen chunk index: connection reset before / after execution, clean error, stall beyond the RPC timeout (retry => duplicate chunk), kill of the receiver before / after the chunk, kill of the sender, short write followed by a kill of the receiver. Killed nodes are restarted on their files and rounds of Sync() repeat until a round in which every node's Sync() reported success (at most 5; with or without a fault in it: a fault absorbed by retries still has to leave the final placement). Oracle: at every removal of a shard directory by the synchronisation, the designated owner already holds a byte-identical copy of the original file (file-system hook); after every round no collection record and no shard is absent from all nodes; after the first round in which every Sync() reported success every record and shard file lives exactly on RendezvousHash(key, new servers), byte-identical to the original, nowhere else; every stored point is readable with its document through every node of the new list; the fault-free round completes within 10 simulated minutes. Non-trivial: >= 1 shard file and >= 1 record had to move. Distinct: (trace hash, placement)."
}

func (c14) Generate(r *rand.Rand, tier string) (sim.Config, any) {
	cfg := RandomSimConfig(r)
	cfg.StmtYield = pick(r, []float64{0, 0.02, 0.1, 0.5, 0.9}) // statement-level preemption in the handler / cluster packages (dense in some runs: the window between reading the node database and sending is a few statements)
	cfg.IdleLimitSec = 7200
	nOld := 1 + r.IntN(3)
	old := r.Perm(4)[:nOld]
	var nw []int
	switch r.IntN(4) {
	case 0: // grow
		nw = append([]int(nil), old...)
		for _, c := range r.Perm(4) {
			in := false
			for _, o := range nw {
				if o == c {
					in = true
				}
			}
			if !in {
				nw = append(nw, c)
				break
			}
		}
	case 1: // shrink
		if nOld > 1 {
			nw = append([]int(nil), old[:nOld-1]...)
		} else {
			nw = []int{(old[0] + 1) % 4}
		}
	case 2: // replace one
		nw = append([]int(nil), old...)
		nw[r.IntN(len(nw))] = (old[0] + 1 + r.IntN(3)) % 4
		seen := map[int]bool{}
		var ded []int
		for _, x := range nw {
			if !seen[x] {
				seen[x] = true
				ded = append(ded, x)
			}
		}
		nw = ded
	default: // completely different set
		for _, c := range r.Perm(4) {
			in := false
			for _, o := range old {
				if o == c {
					in = true
				}
			}
			if !in {
				nw = append(nw, c)
			}
		}
		if len(nw) == 0 {
			nw = []int{old[0]}
		}
		nw = nw[:1+r.IntN(len(nw))]
	}
	r.Shuffle(len(nw), func(i, j int) { nw[i], nw[j] = nw[j], nw[i] })
	p := c14Params{OldServers: old, NewServers: nw, Users: pick(r, [][]string{{"alice"}, {"alice", "bob"}, {"u1", "u2"}}), Cols: 1 + r.IntN(2),
		Points: 4 + r.IntN(24), ShardCap: int64(3 + r.IntN(6)), ChunkMode: pick(r, []string{"equal", "half", "double", "small", "odd"}), PadBytes: pick(r, []int{0, 0, 3000, 30000}), RpcRetries: 1 + r.IntN(2)}
	nf := pick(r, []int{0, 1, 1, 2, 3})
	if tier == "thorough" {
		nf = pick(r, []int{0, 1, 2, 3, 4})
	}
	for i := 0; i < nf; i++ {
		p.Faults = append(p.Faults, c14Fault{Kind: pick(r, []string{"reset-before", "reset-after", "stall", "kill-receiver-before", "kill-receiver-after", "kill-sender", "short-write-kill", "error-before"}), Chunk: pick(r, []int{0, 0, 1, 1, 2, 3}), Round: pick(r, []int{0, 0, 0, 1})})
	}
	return cfg, p
}

func (c14) Sample(raw json.RawMessage) any {
	var p c14Params
	json.Unmarshal(raw, &p)
	return p
}

func (c14) Shrink(raw json.RawMessage) []json.RawMessage {
	var p c14Params
	json.Unmarshal(raw, &p)
	var out []json.RawMessage
	for i := range p.Faults {
		q := p
		q.Faults = append(append([]c14Fault(nil), p.Faults[:i]...), p.Faults[i+1:]...)
		out = append(out, mustJSON(q))
	}
	if len(p.Users) > 1 {
		q := p
		q.Users = p.Users[:1]
		out = append(out, mustJSON(q))
	}
	if p.Cols > 1 {
		q := p
		q.Cols = 1
		out = append(out, mustJSON(q))
	}
	if p.Points > 4 {
		q := p
		q.Points = p.Points / 2
		out = append(out, mustJSON(q))
	}
	if p.PadBytes > 0 {
		q := p
		q.PadBytes = 0
		out = append(out, mustJSON(q))
	}
	return out
}

type c14Original struct {
	records map[string][]byte // key -> value
	shards  map[string][]byte // user/col/shard -> file bytes
	docs    map[string]map[uuid.UUID]Doc
}

func addrsOf(idx []int) []string {
	out := make([]string, len(idx))
	for i, x := range idx {
		out[i] = NodeAddr(x)
	}
	return out
}

func (c14) Execute(env *Env) {
	var p c14Params
	if err := json.Unmarshal(env.Spec.Params, &p); err != nil {
		env.Infra("bad params: %v", err)
		return
	}
	sw := NewStoreWorld()
	sw.Install()
	defer sw.Uninstall()
	net := NewSimNet(nil, 12)
	net.Install()
	defer net.Uninstall()
	seedUUIDs(env.Spec.Seed)
	defer uuid.SetRand(nil)
	defaultChunk := cluster.CHUNKSIZE
	defer func() { cluster.CHUNKSIZE = defaultChunk; sim.FSHook = nil }()
	plan := models.UserPlan{Name: "p", MaxCollections: 5, MaxCollectionPointCount: 100000, MaxPointSize: 100000}
	schema := models.IndexSchema{"n": {Type: models.IndexTypeInteger}, "vf": {Type: models.IndexTypeVectorFlat, VectorFlat: &models.IndexVectorFlatParameters{VectorSize: 2, DistanceMetric: models.DistanceEuclidean}}}
	orig := c14Original{records: map[string][]byte{}, shards: map[string][]byte{}, docs: map[string]map[uuid.UUID]Doc{}}
	oldAddrs, newAddrs := addrsOf(p.OldServers), addrsOf(p.NewServers)
	moved := 0
	placement := ""
	env.RunSim(env.Spec.Sim, func() {
		w := NewClusterWorld(env, sw, net, clusterTemplate(p.ShardCap, p.RpcRetries, 2))
		w.Plans = map[string]models.UserPlan{"p": plan}
		// ---- phase A: populate with the old server list
		for _, i := range p.OldServers {
			if err := w.StartNode(i, oldAddrs); err != nil {
				env.Infra("start node: %v", err)
				return
			}
		}
		entry := oldAddrs[0]
		id := 0
		for _, user := range p.Users {
			for c := 0; c < p.Cols; c++ {
				col := models.Collection{UserId: user, Id: fmt.Sprintf("col%d", c), UserPlan: plan, IndexSchema: schema}
				var err error
				w.Call(entry, func(n *cluster.ClusterNode) { err = n.CreateCollection(col) })
				if err != nil {
					env.Infra("populate: create collection: %v", err)
					return
				}
				docs := map[uuid.UUID]Doc{}
				orig.docs[user+"/"+col.Id] = docs
				for left := p.Points; left > 0; {
					n := min(left, 1+int(p.ShardCap))
					left -= n
					var pts []models.Point
					for k := 0; k < n; k++ {
						d := DocSpec{"n": VI(int64(id)), "vf": VV([]float32{float32(id), 1}), "owner": VS(user), "pad": VS(strings.Repeat("p", p.PadBytes*(id%3)))}
						pts = append(pts, models.Point{Id: PID(id), Data: d.Encode()})
						docs[PID(id)] = d.Norm()
						id++
					}
					var fr []cluster.FailedRange
					w.Call(entry, func(nd *cluster.ClusterNode) {
						c2, e := nd.GetCollection(user, col.Id)
						if e != nil {
							err = e
							return
						}
						c2.UserPlan = plan
						fr, err = nd.InsertPoints(c2, pts)
					})
					if err != nil || len(fr) > 0 {
						env.Infra("populate: insert: %v %v", err, fr)
						return
					}
				}
			}
		}
		// let idle shards unload so that every file is closed cleanly, then stop every process
		sim.Sleep(5 * time.Second)
		for _, a := range oldAddrs {
			w.Kill(a)
		}
		for _, a := range oldAddrs {
			n := w.Nodes[a]
			recs, err := NodeRecords(n.dir)
			if err != nil {
				env.Infra("read records: %v", err)
				return
			}
			for k, v := range detRange(recs) {
				orig.records[k] = v
			}
			for rel, path := range detRange(ShardFiles(n.dir)) {
				b, err := os.ReadFile(path)
				if err != nil {
					env.Infra("read shard: %v", err)
					return
				}
				orig.shards[rel] = b
			}
		}
		// chunk size knob relative to a real shard file
		fileSize := 32768
		for _, b := range detRange(orig.shards) {
			fileSize = len(b)
			break
		}
		switch p.ChunkMode {
		case "equal":
			cluster.CHUNKSIZE = fileSize
		case "half":
			cluster.CHUNKSIZE = fileSize / 2
		case "double":
			cluster.CHUNKSIZE = fileSize * 2
		case "small":
			cluster.CHUNKSIZE = 8192
		case "odd":
			cluster.CHUNKSIZE = 10007
		}
		ownerOfShard := func(rel string) string {
			parts := strings.Split(rel, "/")
			return cluster.RendezvousHash(parts[len(parts)-1], newAddrs, 1)[0]
		}
		ownerOfRecord := func(key string) string {
			return cluster.RendezvousHash(strings.Split(key, "/")[0], newAddrs, 1)[0]
		}
		// ---- phase B: restart with the new server list
		participants := map[string]bool{}
		for _, a := range oldAddrs {
			participants[a] = true
		}
		for _, a := range newAddrs {
			participants[a] = true
		}
		startAll := func() bool {
			for _, a := range sortedKeys(participants) {
				n := w.Nodes[a]
				if n != nil && n.alive {
					continue
				}
				var idx int
				fmt.Sscanf(a, "n%d:1", &idx)
				if err := w.StartNode(idx, newAddrs); err != nil {
					env.Violate("durability", "node-cannot-restart", "node %s cannot be restarted on its files: %v", a, err)
					return false
				}
			}
			return true
		}
		// conservation audit at every removal made by the synchronisation
		writes := map[string]int{}
		var armedShort *c14Fault
		sim.FSHook = func(op, path string, size int) (int, error) {
			node := sim.CurrentNode()
			switch op {
			case "removeall":
				idx := strings.Index(path, cluster.USERCOLSDIR+"/")
				if idx < 0 {
					return 0, nil
				}
				rel := path[idx+len(cluster.USERCOLSDIR)+1:]
				want, known := orig.shards[rel]
				if !known {
					return 0, nil
				}
				owner := w.Nodes[ownerOfShard(rel)]
				var have []byte
				if owner != nil {
					have, _ = os.ReadFile(filepath.Join(owner.dir, cluster.USERCOLSDIR, rel, "sharddb.bbolt"))
				}
				if !bytes.Equal(have, want) {
					env.Violate("conservation", "source-removed-before-owner-complete", "node %s removes shard %s but the designated owner %s holds %d bytes (original %d, identical=%v)", node, rel, ownerOfShard(rel), len(have), len(want), bytes.Equal(have, want))
				}
			case "write":
				writes[node]++
				if os.Getenv("SIM_DEBUG") != "" && writes[node] < 12 {
					fmt.Fprintf(os.Stderr, "DBG write node=%s path=%s size=%d chunk=%d\n", node, path[len(env.Dir):], size, cluster.CHUNKSIZE)
				}
				if armedShort != nil && size > 1 {
					armedShort = nil
					sim.Count("fault:short-write-kill")
					return size / 2, errors.New("injected: short write")
				}
			case "after-short-write":
				// the receiving process dies with a torn chunk on disk
				addr := strings.Split(node, "#")[0]
				net.kill(addr)
			}
			return 0, nil
		}
		fresh := false
		for round := 0; round < 5 && !fresh; round++ {
			if !startAll() {
				return
			}
			// arm this round's faults
			var roundFaults []NetFault
			armedShort = nil
			for _, f := range p.Faults {
				if f.Round != round {
					continue
				}
				if f.Kind == "short-write-kill" {
					ff := f
					armedShort = &ff
					continue
				}
				roundFaults = append(roundFaults, NetFault{Kind: f.Kind, Method: "RPCSendShard", Chunk: f.Chunk})
			}
			net.mu.Lock()
			net.faults = nil
			for i := range roundFaults {
				net.faults = append(net.faults, &roundFaults[i])
			}
			net.mu.Unlock()
			faultsArmed := len(roundFaults) > 0 || armedShort != nil
			t0 := time.Now()
			// every participant runs its start-up synchronisation concurrently
			type res struct {
				addr   string
				err    error
				killed bool
			}
			var chans []<-chan callResult
			errs := map[string]error{}
			addrs := sortedKeys(participants)
			for _, a := range addrs {
				chans = append(chans, w.Go(a, func(n *cluster.ClusterNode) { errs[a] = n.Sync() }))
			}
			anyKilled, anyErr := false, false
			for i, ch := range chans {
				r := sim.Recv("c14:wait-sync", ch)
				if r.killed {
					anyKilled = true
				} else if errs[addrs[i]] != nil {
					anyErr = true
					env.Stat("sync-errors", 1)
				}
			}
			fired := false
			net.mu.Lock()
			for _, f := range net.faults {
				if f.fired {
					fired = true
				}
			}
			net.mu.Unlock()
			if armedShort == nil && faultsArmed && len(roundFaults) == 0 {
				fired = true
			}
			// let stalled / retried handlers finish before the next round
			sim.Sleep(40 * time.Second)
			// nothing may be absent from all nodes
			if !c14NothingLost(env, w, orig, fmt.Sprintf("after round %d", round)) {
				return
			}
			if !anyKilled && !anyErr {
				// every node's Sync() reported success (a fault of this round, if any, was
				// absorbed by retries): the move is claimed to be complete, so the final
				// placement is demanded now, whether or not a fault fired
				fresh = true
				if fired {
					env.Stat("rounds-succeeding-despite-a-fault", 1)
				} else if d := time.Since(t0); d > 10*time.Minute+40*time.Second {
					env.Violate("liveness", "sync-too-slow", "the fault-free round took %v of simulated time", d)
					return
				}
			} else if !faultsArmed && anyErr && !anyKilled {
				// a round without any fault must succeed: a later synchronisation completes the move
				var msgs []string
				for _, a := range addrs {
					if errs[a] != nil {
						msgs = append(msgs, a+": "+errs[a].Error())
					}
				}
				env.Violate("liveness", "fault-free-sync-fails", "round %d had no fault but Sync() failed: %s", round, strings.Join(msgs, " | "))
				return
			}
		}
		if !fresh {
			env.Violate("liveness", "sync-never-completes", "no synchronisation round completed within 5 rounds after the last fault")
			return
		}
		// ---- finality
		for key, val := range detRange(orig.records) {
			for _, a := range sortedKeys(w.Nodes) {
				recs, err := NodeRecords(w.Nodes[a].dir)
				if err != nil {
					env.Infra("records: %v", err)
					return
				}
				have, ok := recs[key]
				switch {
				case a == ownerOfRecord(key) && (!ok || !bytes.Equal(have, val)):
					env.Violate("finality", "record-not-on-owner", "record %s is not (identically) on its owner %s (present=%v)", key, a, ok)
					return
				case a != ownerOfRecord(key) && ok:
					env.Violate("finality", "record-left-behind", "record %s is still on %s, its owner is %s", key, a, ownerOfRecord(key))
					return
				}
			}
			if ownerOfRecord(key) != "" {
				moved++
			}
		}
		var pl []string
		for rel, val := range detRange(orig.shards) {
			for _, a := range sortedKeys(w.Nodes) {
				path := filepath.Join(w.Nodes[a].dir, cluster.USERCOLSDIR, rel, "sharddb.bbolt")
				have, err := os.ReadFile(path)
				ok := err == nil
				switch {
				case a == ownerOfShard(rel) && (!ok || !bytes.Equal(have, val)):
					env.Violate("finality", "shard-not-on-owner", "shard %s is not byte-identical on its owner %s (present=%v, %d vs %d bytes)", rel, a, ok, len(have), len(val))
					return
				case a != ownerOfShard(rel) && ok:
					env.Violate("finality", "shard-left-behind", "shard %s is still on %s, its owner is %s", rel, a, ownerOfShard(rel))
					return
				}
			}
			pl = append(pl, rel+"@"+ownerOfShard(rel))
		}
		sort.Strings(pl)
		placement = strings.Join(pl, ";")
		// every stored point readable through every node of the new list
		for _, a := range newAddrs {
			for key, docs := range detRange(orig.docs) {
				parts := strings.Split(key, "/")
				var c models.Collection
				var err error
				w.Call(a, func(n *cluster.ClusterNode) { c, err = n.GetCollection(parts[0], parts[1]) })
				if err != nil {
					env.Violate("finality", "collection-unreadable", "collection %s cannot be read through %s after the move: %v", key, a, err)
					return
				}
				c.UserPlan = plan
				m := NewRefShard(plan.MaxPointSize)
				m.Docs = docs
				if !auditThroughNode(env, w, a, c, m, "after the move") {
					return
				}
			}
		}
	})
	env.Stat("records", len(orig.records))
	env.Stat("shard-files", len(orig.shards))
	env.SetNonTrivial(len(orig.shards) >= 1 && moved >= 1 && fmt.Sprint(oldAddrs) != fmt.Sprint(newAddrs))
	env.SetStateHash(placement)
}

// c14NothingLost: every original record and shard is present on at least one node.
func c14NothingLost(env *Env, w *ClusterWorld, orig c14Original, where string) bool {
	recs := map[string]bool{}
	shards := map[string]bool{}
	for _, a := range sortedKeys(w.Nodes) {
		r, err := NodeRecords(w.Nodes[a].dir)
		if err != nil {
			env.Violate("conservation", "node-db-unreadable", "%s: node database of %s unreadable: %v", where, a, err)
			return false
		}
		for k, v := range detRange(r) {
			if bytes.Equal(v, orig.records[k]) {
				recs[k] = true
			}
		}
		for rel, path := range detRange(ShardFiles(w.Nodes[a].dir)) {
			b, err := os.ReadFile(path)
			if err == nil && bytes.Equal(b, orig.shards[rel]) {
				shards[rel] = true
			}
		}
	}
	for k := range detRange(orig.records) {
		if !recs[k] {
			env.Violate("conservation", "record-lost", "%s: collection record %s is on no node any more", where, k)
			return false
		}
	}
	for rel := range detRange(orig.shards) {
		if !shards[rel] {
			env.Violate("conservation", "shard-lost", "%s: no node holds a complete copy of shard %s any more", where, rel)
			return false
		}
	}
	return true
}
