package harness

import (
	"fmt"
	"math"
	"strings"

	"github.com/google/uuid"
	"github.com/semafind/semadb/models"
)

// Filter evaluation of the reference model, written from the statement of C02:
// a point matches iff it is stored, carries the indexed field (with the type
// the index expects) and the field value satisfies the operator under the
// index's declared case sensitivity. _and/_or are intersection/union.
//
// IDSet results carry an "optional" part: points for which the property
// statement leaves the answer open (only: comparisons between zeros of
// opposite sign, where IEEE equality and the total order of the key encoding
// disagree).

type IDSet struct {
	Must map[uuid.UUID]bool
	May  map[uuid.UUID]bool // may or may not be returned
}

func newIDSet() IDSet { return IDSet{Must: map[uuid.UUID]bool{}, May: map[uuid.UUID]bool{}} }

func fold(s string, caseSensitive bool) string {
	if caseSensitive {
		return s
	}
	return strings.ToLower(s)
}

func cmpOp(op string, c int) (bool, error) {
	switch op {
	case models.OperatorEquals:
		return c == 0, nil
	case models.OperatorNotEquals:
		return c != 0, nil
	case models.OperatorGreaterThan:
		return c > 0, nil
	case models.OperatorGreaterOrEq:
		return c >= 0, nil
	case models.OperatorLessThan:
		return c < 0, nil
	case models.OperatorLessOrEq:
		return c <= 0, nil
	}
	return false, fmt.Errorf("unknown operator %s", op)
}

func cmp3[T int64 | float64 | string](a, b T) int {
	switch {
	case a < b:
		return -1
	case a > b:
		return 1
	}
	return 0
}

// total order on floats in which -0.0 < +0.0 (the order of a faithful key encoding)
func cmpFloatTotal(a, b float64) int {
	if a == 0 && b == 0 {
		sa, sb := math.Signbit(a), math.Signbit(b)
		switch {
		case sa && !sb:
			return -1
		case !sa && sb:
			return 1
		}
		return 0
	}
	return cmp3(a, b)
}

func evalOrdered[T int64 | float64 | string](op string, v, q, end T, cmp func(a, b T) int) (bool, error) {
	if op == models.OperatorInRange {
		return cmp(v, q) >= 0 && cmp(v, end) <= 0, nil
	}
	return cmpOp(op, cmp(v, q))
}

// matchLeaf decides one point for one leaf query: (matches, optional, error)
func matchLeaf(schema models.IndexSchema, q models.Query, d Doc) (bool, bool, error) {
	sv, ok := schema[q.Property]
	if !ok {
		return false, false, fmt.Errorf("property %s not in schema", q.Property)
	}
	val, present := Lookup(d, q.Property)
	if !present {
		return false, false, nil
	}
	switch sv.Type {
	case models.IndexTypeString:
		s, ok := val.(string)
		if !ok {
			return false, false, nil
		}
		o := q.String
		cs := sv.String.CaseSensitive
		v, qv, ev := fold(s, cs), fold(o.Value, cs), fold(o.EndValue, cs)
		if o.Operator == models.OperatorStartsWith {
			return strings.HasPrefix(v, qv), false, nil
		}
		m, err := evalOrdered(o.Operator, v, qv, ev, cmp3[string])
		return m, false, err
	case models.IndexTypeInteger:
		n, ok := val.(int64)
		if !ok {
			return false, false, nil
		}
		o := q.Integer
		m, err := evalOrdered(o.Operator, n, o.Value, o.EndValue, cmp3[int64])
		return m, false, err
	case models.IndexTypeFloat:
		f, ok := val.(float64)
		if !ok {
			return false, false, nil
		}
		o := q.Float
		a, err := evalOrdered(o.Operator, f, o.Value, o.EndValue, cmp3[float64])
		if err != nil {
			return false, false, err
		}
		b, _ := evalOrdered(o.Operator, f, o.Value, o.EndValue, cmpFloatTotal)
		return a, a != b, nil
	case models.IndexTypeStringArray:
		arr, ok := val.([]any)
		if !ok {
			return false, false, nil
		}
		cs := sv.StringArray.CaseSensitive
		have := map[string]bool{}
		for _, x := range arr {
			if s, ok := x.(string); ok {
				have[fold(s, cs)] = true
			}
		}
		o := q.StringArray
		switch o.Operator {
		case models.OperatorContainsAll:
			for _, x := range o.Value {
				if !have[fold(x, cs)] {
					return false, false, nil
				}
			}
			return true, false, nil
		case models.OperatorContainsAny:
			for _, x := range o.Value {
				if have[fold(x, cs)] {
					return true, false, nil
				}
			}
			return false, false, nil
		}
		return false, false, fmt.Errorf("unknown array operator %s", o.Operator)
	}
	return false, false, fmt.Errorf("not a filter index: %s", sv.Type)
}

// EvalFilter evaluates a pure filter tree (no ranking sub-queries).
func (m *RefShard) EvalFilter(schema models.IndexSchema, q models.Query) (IDSet, error) {
	out := newIDSet()
	switch q.Property {
	case "_and", "_or":
		subs := q.And
		if q.Property == "_or" {
			subs = q.Or
		}
		var sets []IDSet
		for _, s := range subs {
			r, err := m.EvalFilter(schema, s)
			if err != nil {
				return out, err
			}
			sets = append(sets, r)
		}
		for id := range detRange(m.Docs) {
			// three-valued logic: 1 = must, 0 = may, -1 = no
			acc := 1
			if q.Property == "_or" {
				acc = -1
			}
			for _, s := range sets {
				v := -1
				if s.Must[id] {
					v = 1
				} else if s.May[id] {
					v = 0
				}
				if q.Property == "_and" {
					acc = min(acc, v)
				} else {
					acc = max(acc, v)
				}
			}
			if acc == 1 {
				out.Must[id] = true
			} else if acc == 0 {
				out.May[id] = true
			}
		}
		return out, nil
	case "_id":
		var ids []string
		if q.String != nil {
			ids = []string{q.String.Value}
		} else if q.StringArray != nil {
			ids = q.StringArray.Value
		}
		for _, s := range ids {
			u, err := uuid.Parse(s)
			if err != nil {
				return out, err
			}
			if _, ok := m.Docs[u]; ok {
				out.Must[u] = true
			}
		}
		return out, nil
	}
	for id, d := range detRange(m.Docs) {
		match, optional, err := matchLeaf(schema, q, d)
		if err != nil {
			return out, err
		}
		if optional {
			out.May[id] = true
		} else if match {
			out.Must[id] = true
		}
	}
	return out, nil
}

// CheckIDSet compares returned ids with the model's answer.
func CheckIDSet(want IDSet, got []Item) string {
	seen := map[uuid.UUID]bool{}
	for _, it := range got {
		id := PID(it.ID)
		if seen[id] {
			return fmt.Sprintf("id %d returned twice", it.ID)
		}
		seen[id] = true
		if !want.Must[id] && !want.May[id] {
			return fmt.Sprintf("id %d returned but does not satisfy the predicate (doc %v)", it.ID, it.Doc)
		}
	}
	for id := range detRange(want.Must) {
		if !seen[id] {
			return fmt.Sprintf("id %d satisfies the predicate but was not returned", PIDIndex(id))
		}
	}
	return ""
}
