package harness

import (
	"bytes"
	"encoding/json"
	"fmt"
	"math/rand/v2"
	"sort"
	"strings"
	"time"

	"github.com/google/uuid"
	"github.com/semafind/semadb/cluster"
	"github.com/semafind/semadb/models"
	sim "github.com/semafind/semadb/zzsimrt"
)

// C17 — multi-shard fan-out finds each point exactly once and merges results in order.
type c17Op struct {
	Kind   string               `json:"kind"` // insert update delete search down up
	Entry  int                  `json:"entry"`
	Points []PointSpec          `json:"points,omitempty"`
	IDs    []int                `json:"ids,omitempty"`
	Search *models.SearchRequest `json:"search,omitempty"`
	Node   int                  `json:"node,omitempty"` // down/up
	Hang     int                `json:"hang,omitempty"`     // update/delete/search: 1 + index of a server that hangs (never answers, never executes) for this request
	Oversize int                `json:"oversize,omitempty"` // update: 1 + index into Points of a point whose merged document exceeds the size limit (its shard rejects its part of the batch)
	// every established connection is reset while the cluster is idle, right before this
	// request: its fan-out then meets dead cached rpc clients from several goroutines at once
	ResetConns bool `json:"reset_conns,omitempty"`
}

type c17Params struct {
	NServers     int                `json:"n_servers"`
	MaxShardPts  int64              `json:"max_shard_points"`
	Schema       models.IndexSchema `json:"schema"`
	Ops          []c17Op            `json:"ops"`
	RpcRetries   int                `json:"rpc_retries"`
	ShardTimeout int                `json:"shard_timeout"`
}

type c17 struct{}

func init() { Register(c17{}) }

func (c17) ID() string { return "C17" }

func (c17) Rule() string {
	return "each run = 1-3 real ClusterNodes (node database + shard manager on real files) joined by the simulated transport (real msgpack codec and net/rpc client), per-shard point cap 3-8 so that a collection spreads over 1-6 shards on several servers; a seeded history of insert / update / delete / search requests (ids unique per collection, entry node chosen per request), during part of which one shard server is down (process killed, later restarted on its files). After every request: every stored point lives in exactly one shard file over all nodes (raw dumps), update/delete responses list as failed exactly the requested ids no reachable shard processed with message 'not found' iff every shard answered, the model is updated only for points on reachable shards, every point is readable with its model document through every live node; multi-shard searches return <= limit distinct points whose documents, distances and hybrid scores are the model's, ordered by hybrid score or the sort keys, and are the exact global answer when limit <= 10 (every shard is then asked for at least limit results). Non-trivial: >= 2 shards on >= 2 different servers were involved in a fan-out. Distinct: (trace hash, final state)."
}

func c17Schema(r *rand.Rand) models.IndexSchema {
	return models.IndexSchema{
		"vf": {Type: models.IndexTypeVectorFlat, VectorFlat: &models.IndexVectorFlatParameters{VectorSize: 2, DistanceMetric: models.DistanceEuclidean}},
		"s":  {Type: models.IndexTypeString, String: &models.IndexStringParameters{CaseSensitive: true}},
		"n":  {Type: models.IndexTypeInteger},
	}
}

func (c17) Generate(r *rand.Rand, tier string) (sim.Config, any) {
	cfg := RandomSimConfig(r)
	cfg.StmtYield = pick(r, []float64{0, 0, 0.02, 0.1}) // statement-level preemption in the handler / cluster packages
	cfg.IdleLimitSec = 3600
	p := c17Params{NServers: 1 + r.IntN(3), MaxShardPts: int64(3 + r.IntN(6)), Schema: c17Schema(r), RpcRetries: 1 + r.IntN(2), ShardTimeout: pick(r, []int{5, 30, 300})}
	nops := 6 + r.IntN(8)
	if tier == "thorough" {
		nops = 10 + r.IntN(14)
	}
	next := 0
	var live []int
	down := -1
	for len(p.Ops) < nops {
		entry := r.IntN(p.NServers)
		for entry == down {
			entry = r.IntN(p.NServers)
		}
		x := r.Float64()
		switch {
		case x < 0.35 || len(live) == 0:
			if down >= 0 {
				continue // inserts need every shard's info; keep them to the fault-free phases
			}
			n := 1 + r.IntN(9)
			var batch []PointSpec
			for k := 0; k < n; k++ {
				batch = append(batch, PointSpec{ID: next, Doc: GenDoc(r, p.Schema, 0.9)})
				live = append(live, next)
				next++
			}
			p.Ops = append(p.Ops, c17Op{Kind: "insert", Entry: entry, Points: batch})
		case x < 0.5:
			var batch []PointSpec
			for k := 0; k < 1+r.IntN(5); k++ {
				id := r.IntN(next + 3) // some unknown ids
				dup := false
				for _, b := range batch {
					if b.ID == id {
						dup = true
					}
				}
				if dup {
					continue
				}
				d := DocSpec{"n": VI(int64(r.IntN(50)))}
				if r.IntN(2) == 0 {
					d["vf"] = VV(genVector(r, 2, models.DistanceEuclidean))
				}
				batch = append(batch, PointSpec{ID: id, Doc: d})
			}
			uop := c17Op{Kind: "update", Entry: entry, Points: batch}
			if len(batch) > 0 && r.IntN(5) == 0 {
				k := r.IntN(len(batch))
				batch[k].Doc["big"] = VS(strings.Repeat("y", 3100))
				uop.Oversize = k + 1
			}
			p.Ops = append(p.Ops, uop)
		case x < 0.62:
			var ids []int
			seen := map[int]bool{}
			for k := 0; k < 1+r.IntN(4); k++ {
				id := r.IntN(next + 2)
				if !seen[id] {
					seen[id] = true
					ids = append(ids, id)
				}
			}
			p.Ops = append(p.Ops, c17Op{Kind: "delete", Entry: entry, IDs: ids})
		case x < 0.9:
			var q models.Query
			switch r.IntN(3) {
			case 0:
				q = *genRankQuery(r, p.Schema, "vf", max(next, 1), false)
				q.VectorFlat.Weight = nil
				q.VectorFlat.Limit = pick(r, []int{3, 10, 40, 75})
			case 1:
				q = *genFilterTree(r, p.Schema, max(next, 1), 1)
			default:
				n := 1 + r.IntN(6)
				ids := make([]string, n)
				for i := range ids {
					ids[i] = PID(r.IntN(max(next, 1))).String()
				}
				q = models.Query{Property: "_id", StringArray: &models.SearchStringArrayOptions{Value: ids, Operator: models.OperatorContainsAny}}
			}
			req := models.SearchRequest{Query: q, Select: []string{"*"}, Limit: pick(r, []int{1, 3, 10, 10, 25, 100})}
			if r.IntN(3) == 0 {
				req.Sort = []models.SortOption{{Property: "n", Descending: r.IntN(2) == 0}}
			}
			if r.IntN(5) == 0 {
				req.Offset = pick(r, []int{1, 2, 3, 6})
			}
			p.Ops = append(p.Ops, c17Op{Kind: "search", Entry: entry, Search: &req})
		default:
			if p.NServers < 2 {
				continue
			}
			if down < 0 {
				down = r.IntN(p.NServers)
				p.Ops = append(p.Ops, c17Op{Kind: "down", Node: down})
			} else {
				p.Ops = append(p.Ops, c17Op{Kind: "up", Node: down})
				down = -1
			}
		}
	}
	if down >= 0 {
		p.Ops = append(p.Ops, c17Op{Kind: "up", Node: down})
	}
	// a hung shard server (rpc timeout instead of a refused connection) for some requests
	isDown := -1
	for i := range p.Ops {
		switch p.Ops[i].Kind {
		case "down":
			isDown = p.Ops[i].Node
		case "up":
			isDown = -1
		case "update", "delete", "search":
			if p.NServers >= 2 && isDown < 0 && r.IntN(5) == 0 {
				p.Ops[i].ResetConns = true
			}
			if p.NServers >= 2 && isDown < 0 && p.Ops[i].Oversize == 0 && r.IntN(6) == 0 {
				h := r.IntN(p.NServers)
				if h != p.Ops[i].Entry {
					p.Ops[i].Hang = h + 1
				}
			}
		}
	}
	return cfg, p
}

func (c17) Sample(raw json.RawMessage) any {
	var p c17Params
	json.Unmarshal(raw, &p)
	var ops []string
	for _, o := range p.Ops {
		ops = append(ops, fmt.Sprintf("%s@n%d/%d", o.Kind, o.Entry, len(o.Points)+len(o.IDs)))
	}
	return map[string]any{"n_servers": p.NServers, "max_shard_points": p.MaxShardPts, "ops": ops}
}

func (c17) Shrink(raw json.RawMessage) []json.RawMessage {
	var p c17Params
	json.Unmarshal(raw, &p)
	var out []json.RawMessage
	for i := len(p.Ops) - 1; i >= 0; i-- {
		if p.Ops[i].Kind == "down" || p.Ops[i].Kind == "up" {
			continue
		}
		q := p
		q.Ops = append(append([]c17Op(nil), p.Ops[:i]...), p.Ops[i+1:]...)
		out = append(out, mustJSON(q))
	}
	// drop a down/up pair
	for i := range p.Ops {
		if p.Ops[i].Kind == "down" {
			for j := i + 1; j < len(p.Ops); j++ {
				if p.Ops[j].Kind == "up" {
					q := p
					q.Ops = append(append(append([]c17Op(nil), p.Ops[:i]...), p.Ops[i+1:j]...), p.Ops[j+1:]...)
					out = append(out, mustJSON(q))
					break
				}
			}
		}
	}
	return out
}

// clusterTemplate is the node configuration shared by the cluster properties.
func clusterTemplate(maxShardPts int64, retries, shardTimeout int) cluster.ClusterNodeConfig {
	return cluster.ClusterNodeConfig{RpcTimeout: 5, RpcRetries: retries, MaxShardSize: 1 << 30, MaxShardPointCount: maxShardPts, MaxSearchLimit: 75,
		ShardManager: cluster.ShardManagerConfig{ShardTimeout: shardTimeout, MaxCacheSize: -1}}
}

// shardMembership reads, from the raw files of every node directory, which shard holds which point.
func shardMembership(w *ClusterWorld, user, col string) (map[uuid.UUID][]string, map[string]string, error) {
	where := map[uuid.UUID][]string{}
	shardNode := map[string]string{}
	for addr, n := range detRange(w.Nodes) {
		for rel, path := range detRange(ShardFiles(n.dir)) {
			parts := strings.Split(rel, "/")
			if len(parts) != 3 || parts[0] != user || parts[1] != col {
				continue
			}
			ids, err := ShardPointIDs(path)
			if err != nil {
				return nil, nil, err
			}
			shardNode[parts[2]] = addr
			for _, id := range ids {
				where[id] = append(where[id], parts[2]+"@"+addr)
			}
		}
	}
	return where, shardNode, nil
}

func (c17) Execute(env *Env) {
	var p c17Params
	if err := json.Unmarshal(env.Spec.Params, &p); err != nil {
		env.Infra("bad params: %v", err)
		return
	}
	sw := NewStoreWorld()
	sw.Install()
	defer sw.Uninstall()
	net := NewSimNet(nil, 0)
	net.Install()
	defer net.Uninstall()
	seedUUIDs(env.Spec.Seed)
	defer uuid.SetRand(nil)
	plan := models.UserPlan{Name: "p", MaxCollections: 3, MaxCollectionPointCount: 100000, MaxPointSize: 3000}
	col := models.Collection{UserId: "alice", Id: "col", UserPlan: plan, IndexSchema: p.Schema}
	model := NewRefShard(plan.MaxPointSize)
	fanouts := 0
	env.RunSim(env.Spec.Sim, func() {
		w := NewClusterWorld(env, sw, net, clusterTemplate(p.MaxShardPts, p.RpcRetries, p.ShardTimeout))
		w.Plans = map[string]models.UserPlan{"p": plan}
		servers := make([]string, p.NServers)
		for i := range servers {
			servers[i] = NodeAddr(i)
		}
		for i := range servers {
			if err := w.StartNode(i, servers); err != nil {
				env.Infra("start node: %v", err)
				return
			}
		}
		var cerr error
		w.Call(NodeAddr(0), func(n *cluster.ClusterNode) { cerr = n.CreateCollection(col) })
		if cerr != nil {
			env.Violate("spurious-error", "create-collection", "creating the collection failed: %v", cerr)
			return
		}
		getCol := func(entry string) (models.Collection, bool) {
			var c models.Collection
			var err error
			w.Call(entry, func(n *cluster.ClusterNode) { c, err = n.GetCollection("alice", "col") })
			if err != nil {
				return c, false
			}
			c.UserPlan = plan
			return c, true
		}
		down := ""
		for i, op := range p.Ops {
			entry := NodeAddr(op.Entry)
			where := fmt.Sprintf("op %d (%s via %s, down=%q)", i, op.Kind, entry, down)
			switch op.Kind {
			case "down":
				down = NodeAddr(op.Node)
				w.Kill(down)
				env.Stat("server-down", 1)
				continue
			case "up":
				if err := w.StartNode(op.Node, servers); err != nil {
					env.Violate("spurious-error", "restart", "%s: restarting the node failed: %v", where, err)
					return
				}
				down = ""
				continue
			}
			if op.ResetConns && down == "" {
				if k := net.ResetIdleConns(); k > 0 {
					env.Stat("idle-connections-reset", k)
					sim.Sleep(time.Second) // the rpc clients' reader goroutines see the reset
				}
			}
			// the record lives on the user's home server; if that one is down nothing can be asked
			c, ok := getCol(entry)
			prevDown := down
			if op.Hang > 0 && down == "" && ok {
				method := map[string]string{"update": "RPCUpdatePoints", "delete": "RPCDeletePoints", "search": "RPCSearchPoints"}[op.Kind]
				down = NodeAddr(op.Hang - 1)
				net.mu.Lock()
				net.faults = append(net.faults, &NetFault{Kind: "hang", Method: method, Node: down, Chunk: -1, sticky: true})
				net.mu.Unlock()
				env.Stat("server-hung", 1)
			}
			// A bystander: while the request above waits for its hung rpc to time out (5 s), a
			// search through the same entry node is sent one second before that moment and
			// answered slowly (2 s) by the same server. It is in flight on the same connection
			// when the other call times out, and nothing may happen to it.
			var bystander <-chan callResult
			var byErr error
			var byFR []cluster.FailedRange
			byPoint := []PointSpec{{ID: 3000 + i, Doc: DocSpec{"n": VI(int64(i)), "s": VS("bystander"), "vf": VV([]float32{float32(i), 1})}}}
			if op.Hang > 0 && prevDown == "" && ok && op.Kind != "search" && down != entry && len(c.ShardIds) > 0 {
				net.mu.Lock()
				net.faults = append(net.faults, &NetFault{Kind: "slow", Method: "RPCInsertPoints", Node: down, Chunk: -1, sticky: true})
				net.mu.Unlock()
				bystander = w.Go(entry, func(n *cluster.ClusterNode) {
					sim.Sleep(4 * time.Second)
					byFR, byErr = n.InsertPoints(c, toPoints(byPoint))
				})
			}
			clearHang := func() {
				if bystander != nil {
					sim.Recv("c17:bystander", bystander)
					bystander = nil
					switch {
					case byErr != nil && shardClosedErr(byErr.Error()):
						// refused as a whole by a shard that was being unloaded: nothing stored
					case byErr != nil || len(byFR) > 0:
						env.Violate("spurious-error", "bystander-insert", "%s: an insert of one fresh point sent while another request of the same node was waiting for a hung server failed although every server it needs answers (slowly): err=%v failed ranges=%v", where, byErr, byFR)
					default:
						model.Insert(byPoint)
					}
					env.Stat("bystander-inserts", 1)
				}
				if op.Hang > 0 && prevDown == "" {
					net.mu.Lock()
					net.faults = nil
					net.mu.Unlock()
					down = ""
				}
			}
			if !ok {
				env.Stat("home-server-down", 1)
				clearHang()
				continue
			}
			member, shardNode, err := shardMembership(w, "alice", "col")
			if err != nil {
				env.Infra("membership: %v", err)
				return
			}
			reachable := func(id uuid.UUID) bool {
				for _, loc := range member[id] {
					if !strings.HasSuffix(loc, "@"+down) || down == "" {
						return true
					}
				}
				return false
			}
			shardsDown := 0
			srvSet := map[string]bool{}
			for _, sid := range c.ShardIds {
				owner := cluster.RendezvousHash(sid, servers, 1)[0]
				srvSet[owner] = true
				if owner == down {
					shardsDown++
				}
			}
			if len(c.ShardIds) >= 2 && len(srvSet) >= 2 {
				fanouts++
			}
			_ = shardNode
			switch op.Kind {
			case "insert":
				var fr []cluster.FailedRange
				var ierr error
				pts := toPoints(op.Points)
				w.Call(entry, func(n *cluster.ClusterNode) { fr, ierr = n.InsertPoints(c, pts) })
				for try := 0; try < 3 && ierr != nil && len(fr) == 0 && shardClosedErr(ierr.Error()); try++ {
					// refused as a whole while sizing the shards (nothing was sent): ask again
					env.Stat("clean-already-closed", 1)
					sim.Sleep(50 * time.Millisecond) // a client retries later: the unload in progress finishes first
					w.Call(entry, func(n *cluster.ClusterNode) { fr, ierr = n.InsertPoints(c, toPoints(op.Points)) })
				}
				// the one clean failure a healthy cluster may answer with: the request met a shard
				// that its idle timer was just unloading (C12 allows "already closed"); such a
				// range was not stored, which the audits below verify
				skipped := map[int]bool{}
				for _, f := range fr {
					if !shardClosedErr(f.Err) {
						ierr = fmt.Errorf("failed range %+v", f)
					}
					for k := f.Start; k < f.End && k < len(op.Points); k++ {
						skipped[k] = true
					}
				}
				if ierr != nil {
					env.Violate("spurious-error", "cluster-insert", "%s: insert of fresh ids with every server up failed: err=%v failed ranges=%v", where, ierr, fr)
					return
				}
				var stored []PointSpec
				for k, pt := range op.Points {
					if !skipped[k] {
						stored = append(stored, pt)
					}
				}
				if len(skipped) > 0 {
					env.Stat("clean-already-closed", 1)
				}
				model.Insert(stored)
			case "update":
				var fp []cluster.FailedPoint
				var uerr error
				pts := toPoints(op.Points)
				mark := markUnloads()
				w.Call(entry, func(n *cluster.ClusterNode) { fp, uerr = n.UpdatePoints(c, pts) })
				if uerr != nil {
					env.Violate("spurious-error", "cluster-update", "%s: update failed: %v", where, uerr)
					return
				}
				var processed []PointSpec
				wantFailed := map[uuid.UUID]bool{}
				closed := shardClosedIDs(env, fp, mark)
				// a point whose merged document is oversized makes its shard reject its whole part of the batch
				rejecting := ""
				if op.Oversize > 0 {
					big := PID(op.Points[op.Oversize-1].ID)
					if _, live := model.Docs[big]; live && reachable(big) {
						rejecting = member[big][0]
						env.Stat("shard-rejected-update", 1)
					}
				}
				for _, pt := range op.Points {
					id := PID(pt.ID)
					if _, live := model.Docs[id]; live && reachable(id) && member[id][0] != rejecting && !closed[id] {
						processed = append(processed, pt)
					} else {
						wantFailed[id] = true
					}
				}
				model.Update(processed)
				if msg := checkFailed(fp, wantFailed, shardsDown == 0 && rejecting == "" && len(closed) == 0); msg != "" {
					env.Violate("wrong-answer", "failed-points:update", "%s: %s", where, msg)
					return
				}
			case "delete":
				var fp []cluster.FailedPoint
				var derr error
				ids := make([]uuid.UUID, len(op.IDs))
				for k, id := range op.IDs {
					ids[k] = PID(id)
				}
				mark := markUnloads()
				w.Call(entry, func(n *cluster.ClusterNode) { fp, derr = n.DeletePoints(c, ids) })
				if derr != nil {
					env.Violate("spurious-error", "cluster-delete", "%s: delete failed: %v", where, derr)
					return
				}
				var processed []int
				wantFailed := map[uuid.UUID]bool{}
				closed := shardClosedIDs(env, fp, mark)
				for _, id := range op.IDs {
					u := PID(id)
					if _, live := model.Docs[u]; live && reachable(u) && !closed[u] {
						processed = append(processed, id)
					} else {
						wantFailed[u] = true
					}
				}
				model.Delete(processed)
				if msg := checkFailed(fp, wantFailed, shardsDown == 0 && len(closed) == 0); msg != "" {
					env.Violate("wrong-answer", "failed-points:delete", "%s: %s", where, msg)
					return
				}
			case "search":
				var res []models.SearchResult
				var serr error
				req := cloneRequest(*op.Search)
				w.Call(entry, func(n *cluster.ClusterNode) { res, serr = n.SearchPoints(c, req) })
				for try := 0; try < 3 && serr != nil && shardClosedErr(serr.Error()); try++ {
					env.Stat("clean-already-closed", 1)
					sim.Sleep(50 * time.Millisecond)
					req = cloneRequest(*op.Search)
					w.Call(entry, func(n *cluster.ClusterNode) { res, serr = n.SearchPoints(c, req) })
				}
				if serr != nil {
					if shardsDown == 0 && len(c.ShardIds) > 0 {
						env.Violate("spurious-error", "cluster-search", "%s: search with every server up failed: %v", where, serr)
						return
					}
					env.Stat("search-failed-shard-down", 1)
					clearHang()
					continue
				}
				if len(c.ShardIds) == 0 {
					clearHang()
					continue
				}
				if msg := checkClusterSearch(model, p.Schema, *op.Search, toAnswer(res, nil), shardsDown == 0); msg != "" {
					env.Violate("wrong-answer", "cluster-search-result", "%s: request %s: %s", where, jsonStr(op.Search), msg)
					return
				}
				clearHang()
				continue
			}
			clearHang()
			// after a write: exactly-once placement and readability through every live node
			member, _, err = shardMembership(w, "alice", "col")
			if err != nil {
				env.Infra("membership: %v", err)
				return
			}
			for id := range detRange(model.Docs) {
				if len(member[id]) != 1 {
					env.Violate("wrong-answer", "point-placement", "%s: point %d is stored in %d shards %v, expected exactly one", where, PIDIndex(id), len(member[id]), member[id])
					return
				}
			}
			for id, locs := range detRange(member) {
				if _, live := model.Docs[id]; !live {
					env.Violate("wrong-answer", "ghost-point", "%s: point %d is still stored in %v although the model does not hold it", where, PIDIndex(id), locs)
					return
				}
			}
			if down == "" {
				c2, _ := getCol(entry)
				for _, a := range sortedKeys(w.Nodes) {
					if !w.Nodes[a].alive {
						continue
					}
					if !auditThroughNode(env, w, a, c2, model, where) {
						return
					}
				}
			}
		}
	})
	env.Stat("fanouts", fanouts)
	env.SetNonTrivial(fanouts >= 1)
	env.SetStateHash(model.StateKey())
}

// shardClosedErr: the clean error of a request that met a shard while its idle
// timer was unloading it (cluster/shardmgr.go DoWithShard; allowed by C12). The
// request was not executed by that shard; a later request reloads the shard.
func shardClosedErr(msg string) bool { return strings.Contains(msg, "is already closed") }

// shardClosedIDs: ids an update / delete reports as "shard unavailable" while an idle
// unload of some shard overlapped the request (mark): their shard answered with the
// clean "already closed" error, which the fan-out reports as an unavailable shard.
// They count as not executed (the audits verify it) and the answer as incomplete.
func shardClosedIDs(env *Env, fp []cluster.FailedPoint, mark unloadMark) map[uuid.UUID]bool {
	out := map[uuid.UUID]bool{}
	if !mark.overlapped() {
		return out
	}
	for _, f := range fp {
		if f.Err == "shard unavailable" || shardClosedErr(f.Err) {
			out[f.Id] = true
		}
	}
	if len(out) > 0 {
		env.Stat("clean-already-closed", 1)
	}
	return out
}

func checkFailed(got []cluster.FailedPoint, want map[uuid.UUID]bool, complete bool) string {
	seen := map[uuid.UUID]bool{}
	for _, f := range got {
		if seen[f.Id] {
			return fmt.Sprintf("id %d listed twice as failed", PIDIndex(f.Id))
		}
		seen[f.Id] = true
		if !want[f.Id] {
			return fmt.Sprintf("id %d listed as failed (%q) although a reachable shard holds it", PIDIndex(f.Id), f.Err)
		}
		if complete && f.Err != "not found" {
			return fmt.Sprintf("id %d failed with %q although every shard answered (expected \"not found\")", PIDIndex(f.Id), f.Err)
		}
		if !complete && f.Err == "not found" {
			return fmt.Sprintf("id %d reported \"not found\" although a shard did not answer", PIDIndex(f.Id))
		}
	}
	for id := range detRange(want) {
		if !seen[id] {
			return fmt.Sprintf("id %d was processed by no shard but is not listed as failed", PIDIndex(id))
		}
	}
	return ""
}

// auditThroughNode reads every model point by id through one node.
func auditThroughNode(env *Env, w *ClusterWorld, addr string, c models.Collection, m *RefShard, where string) bool {
	ids := m.IDs()
	for start := 0; start < len(ids); start += 50 {
		end := min(start+50, len(ids))
		strs := make([]string, 0, end-start+1)
		for _, id := range ids[start:end] {
			strs = append(strs, id.String())
		}
		strs = append(strs, PID(4000).String()) // never stored
		var res []models.SearchResult
		var err error
		for try := 0; try < 4; try++ {
			w.Call(addr, func(n *cluster.ClusterNode) {
				res, err = n.SearchPoints(c, models.SearchRequest{Query: models.Query{Property: "_id", StringArray: &models.SearchStringArrayOptions{Value: strs, Operator: models.OperatorContainsAny}}, Select: []string{"*"}, Limit: 100})
			})
			if err == nil || !shardClosedErr(err.Error()) {
				break
			}
			env.Stat("clean-already-closed", 1) // met a shard being unloaded by its idle timer: a new request reloads it
			sim.Sleep(50 * time.Millisecond)
		}
		if err != nil {
			env.Violate("spurious-error", "cluster-read", "%s: reading points through %s failed: %v", where, addr, err)
			return false
		}
		a := toAnswer(res, nil)
		if a.Err != "" {
			env.Violate("wrong-answer", "cluster-read", "%s: through %s: %s", where, addr, a.Err)
			return false
		}
		got := map[uuid.UUID]Doc{}
		for _, it := range a.Items {
			if _, dup := got[PID(it.ID)]; dup {
				env.Violate("wrong-answer", "found-twice", "%s: point %d returned twice through %s", where, it.ID, addr)
				return false
			}
			got[PID(it.ID)] = it.Doc
		}
		for _, id := range ids[start:end] {
			d, ok := got[id]
			if !ok {
				env.Violate("wrong-answer", "not-found-through-node", "%s: stored point %d is not found through %s", where, PIDIndex(id), addr)
				return false
			}
			if !DocEqual(d, m.Docs[id]) {
				env.Violate("wrong-answer", "wrong-document-through-node", "%s: point %d read through %s is %v, model %v", where, PIDIndex(id), addr, d, m.Docs[id])
				return false
			}
		}
		if len(got) != end-start {
			env.Violate("wrong-answer", "extra-points", "%s: %d points returned through %s for %d stored ids", where, len(got), addr, end-start)
			return false
		}
	}
	return true
}

// checkClusterSearch validates a merged multi-shard answer against the model.
func checkClusterSearch(m *RefShard, schema models.IndexSchema, req models.SearchRequest, a Answer, allUp bool) string {
	if a.Err != "" {
		return a.Err
	}
	if req.Limit > 0 && len(a.Items) > req.Limit {
		return fmt.Sprintf("%d results for limit %d", len(a.Items), req.Limit)
	}
	want, err := m.EvalQuery(QueryEnv{Schema: schema}, withoutLeafLimit(req.Query))
	if err != nil {
		return "model: " + err.Error()
	}
	hy := hybridOf(want)
	seen := map[int]bool{}
	var all []orderedItem
	for id := range detRange(want.Set) {
		h, ranked := hy[id]
		all = append(all, orderedItem{id: id, ranked: ranked, hybrid: h, doc: Project(m.Docs[id], req.Select)})
	}
	for _, it := range a.Items {
		if seen[it.ID] {
			return fmt.Sprintf("id %d returned twice", it.ID)
		}
		seen[it.ID] = true
		id := PID(it.ID)
		if !want.Set[id] {
			return fmt.Sprintf("id %d returned but it does not match the query in the model", it.ID)
		}
		if it.Doc != nil && !DocEqual(it.Doc, m.Docs[id]) {
			return fmt.Sprintf("id %d returned with document %v, model %v", it.ID, it.Doc, m.Docs[id])
		}
		if h, ranked := hy[id]; ranked && !closeF(float64(it.Hybrid), h) {
			return fmt.Sprintf("id %d has hybrid score %g, model %g", it.ID, it.Hybrid, h)
		}
	}
	// global order of what was returned
	byID := map[uuid.UUID]orderedItem{}
	for _, x := range all {
		byID[x.id] = x
	}
	for i := 1; i < len(a.Items); i++ {
		x, y := byID[PID(a.Items[i-1].ID)], byID[PID(a.Items[i].ID)]
		if less, _ := lessEq(y, x, req.Sort); less {
			return fmt.Sprintf("results are not globally ordered: id %d precedes id %d", a.Items[i-1].ID, a.Items[i].ID)
		}
	}
	// exact global answer when every shard is asked for at least limit results
	// (a ranking leaf combined with sort keys has no shard-independent meaning: each shard
	// sorts its own nearest neighbours; only validity is demanded there)
	ranking := countRankLeaves(req.Query, schema) > 0
	if allUp && want.Ambiguous == "" && req.Offset == 0 && req.Limit > 0 && req.Limit <= 10 && leafLimitAtLeast(req.Query, req.Limit) && !(ranking && len(req.Sort) > 0) {
		if d := CheckPage(all, a.Items, req.Sort, 0, req.Limit); d != "" {
			return "not the global top-" + fmt.Sprint(req.Limit) + ": " + d
		}
	}
	return ""
}

// withoutLeafLimit lifts the per-index limit of a ranking leaf: over the whole
// collection every candidate is a possible per-shard answer.
func withoutLeafLimit(q models.Query) models.Query {
	b, _ := json.Marshal(q)
	var c models.Query
	json.Unmarshal(b, &c)
	if c.VectorFlat != nil {
		c.VectorFlat.Limit = 100000
	}
	return c
}

func leafLimitAtLeast(q models.Query, n int) bool {
	if q.VectorFlat != nil {
		return q.VectorFlat.Limit >= n
	}
	return true
}

var _ = sort.Ints
var _ = bytes.Compare
