package harness

import (
	"bytes"
	"encoding/json"
	"fmt"
	"math"
	"math/rand/v2"
	"strings"

	"github.com/google/uuid"
	"github.com/semafind/semadb/models"
	sim "github.com/semafind/semadb/zzsimrt"
	"github.com/vmihailenco/msgpack/v5"
)

// C18 — no request can crash the server; invalid input is refused without side effects.
//
// Honest scope (DESIGN.md): this is seeded input sampling inside a simulated node;
// the simulator contributes the whole-node state oracle, the containment of panics
// in non-handler goroutines and the distance-call guard, not coverage of all byte
// strings.
type c18Req struct {
	Method string `json:"method"`
	Path   string `json:"path"`
	CT     string `json:"content_type"`
	Body   []byte `json:"body"`
	User   string `json:"user"`
	Plan   string `json:"plan"`
	Label  string `json:"label"` // must4xx | no5xx | nojudge (NaN / Inf / huge values: only crash-freedom and 4xx=>unchanged)
	Desc   string `json:"desc"`
}

type c18Params struct {
	Reqs []c18Req `json:"requests"`
	// XVariant > 0: a third collection "cvx" created through the v2 API whose property
	// is literally named "vector" (the name the v1 API assumes) with a schema entry of
	// variant XVariant (see c18XSchemas): another index type, stray parameter blocks
	XVariant int `json:"x_variant,omitempty"`
}

// c18XSchemas: schema of collection cvx and a well-formed value of its "vector"
// property. Entry 0 is unused (no cvx).
var c18XSchemas = []struct {
	schema string
	value  any
	dims   []int // vector lengths worth trying through the v1 API
}{
	{},
	{`{"vector":{"type":"vectorFlat","vectorFlat":{"vectorSize":4,"distanceMetric":"euclidean"},"vectorVamana":{"vectorSize":2,"distanceMetric":"euclidean","searchSize":75,"degreeBound":64,"alpha":1.2}}}`, []any{1.0, 2.0, 3.0, 4.0}, []int{2, 4}},
	{`{"vector":{"type":"vectorFlat","vectorFlat":{"vectorSize":3,"distanceMetric":"cosine"}}}`, []any{0.6, 0.8, 0.0}, []int{3}},
	{`{"vector":{"type":"string","string":{"caseSensitive":false},"vectorVamana":{"vectorSize":3,"distanceMetric":"euclidean","searchSize":75,"degreeBound":64,"alpha":1.2}}}`, "abc", []int{3}},
	{`{"vector":{"type":"vectorVamana","vectorVamana":{"vectorSize":3,"distanceMetric":"euclidean","searchSize":75,"degreeBound":64,"alpha":1.2},"vectorFlat":{"vectorSize":5,"distanceMetric":"dot"}}}`, []any{1.0, 2.0, 3.0}, []int{3, 5}},
	{`{"vector":{"type":"text","text":{"analyser":"standard"},"vectorVamana":{"vectorSize":2,"distanceMetric":"cosine","searchSize":75,"degreeBound":64,"alpha":1.2},"vectorFlat":{"vectorSize":2,"distanceMetric":"cosine"}}}`, "quick brown fox", []int{2}},
}

func c18XBases(r *rand.Rand, xv int) []c18Base {
	x := c18XSchemas[xv]
	vec := func() []any {
		out := make([]any, pick(r, x.dims))
		for i := range out {
			out[i] = float64(1 + r.IntN(9))
		}
		return out
	}
	var sv map[string]any
	json.Unmarshal([]byte(x.schema), &sv)
	typ := sv["vector"].(map[string]any)["type"].(string)
	var v2q map[string]any
	switch typ {
	case "vectorFlat":
		v2q = map[string]any{"property": "vector", "vectorFlat": map[string]any{"vector": deepCopy(x.value), "operator": "near", "limit": 5.0}}
	case "vectorVamana":
		v2q = map[string]any{"property": "vector", "vectorVamana": map[string]any{"vector": deepCopy(x.value), "operator": "near", "searchSize": 30.0, "limit": 5.0}}
	case "string":
		v2q = map[string]any{"property": "vector", "string": map[string]any{"value": "abc", "operator": "equals"}}
	default:
		v2q = map[string]any{"property": "vector", "text": map[string]any{"value": "fox", "operator": "containsAny", "limit": 5.0}}
	}
	return []c18Base{
		{"GET", "/v1/collections/cvx", nil},
		{"POST", "/v1/collections/cvx/points", map[string]any{"points": []any{map[string]any{"id": PID(7000 + r.IntN(900)).String(), "vector": vec(), "metadata": map[string]any{"a": 1.0}}}}},
		{"POST", "/v1/collections/cvx/points", map[string]any{"points": []any{map[string]any{"vector": vec()}}}},
		{"PUT", "/v1/collections/cvx/points", map[string]any{"points": []any{map[string]any{"id": PID(7900).String(), "vector": vec()}}}},
		{"DELETE", "/v1/collections/cvx/points", map[string]any{"ids": []any{PID(7901).String()}}},
		{"POST", "/v1/collections/cvx/points/search", map[string]any{"vector": vec(), "limit": 5.0}},
		{"POST", "/v2/collections/cvx/points/search", map[string]any{"query": v2q, "limit": 5.0}},
		{"POST", "/v2/collections/cvx/points/search", map[string]any{"query": v2q, "limit": 5.0}},
		{"POST", "/v2/collections/cvx/points", map[string]any{"points": []any{map[string]any{"vector": deepCopy(x.value), "k": "v"}}}},
		{"GET", "/v2/collections/cvx", nil},
	}
}

type c18 struct{}

func init() { Register(c18{}) }

func (c18) ID() string { return "C18" }

func (c18) Rule() string {
	return "each run = one real node behind its real HTTP handler chain (v1 and v2 routers, all middleware incl. panic recovery), holding a v2 collection with every index kind, a v1 collection and a v2-created collection whose property is named vector (the name the v1 API assumes) with one of five schema variants (other index type, stray parameter blocks of another type and dimension), all with points; 40-80 seeded requests: structurally valid requests for every endpoint of both API versions mutated field by field (wrong types, missing / extra fields, null, NaN / Inf / huge numbers via MessagePack, vector lengths 0 / 1 / dim-1 / dim+1 / 4096 / 4097, limits and search sizes at and beyond their bounds, empty / very long / non-UTF8 strings, reserved property names, deep nesting, duplicate keys, truncated and random bodies, wrong or missing content type and headers, malformed collection ids), JSON and MessagePack; plus points that fit the plan their collection was created under but exceed the point size of the plan named by the request (the active plan must decide). Oracle after every request: no panic in any goroutine (a crash event ends the run), never a 5xx (except for requests labelled NaN/Inf/huge, which are only required not to crash), a 4xx leaves the logical digest of every node database and shard file unchanged, requests labelled as schema-violating must get a 4xx, and the interposed distance functions never see operands of different length. Non-trivial: >= 10 requests answered 2xx and >= 10 answered 4xx. Distinct: trace hash."
}

const c18Dim = 3

var c18SchemaJSON = `{"vf":{"type":"vectorFlat","vectorFlat":{"vectorSize":3,"distanceMetric":"euclidean"}},"vv":{"type":"vectorVamana","vectorVamana":{"vectorSize":3,"distanceMetric":"cosine","searchSize":75,"degreeBound":64,"alpha":1.2}},"s":{"type":"string","string":{"caseSensitive":false}},"n":{"type":"integer"},"f":{"type":"float"},"t":{"type":"text","text":{"analyser":"standard"}},"tags":{"type":"stringArray","stringArray":{"caseSensitive":true}},"geo.home.coords":{"type":"vectorFlat","vectorFlat":{"vectorSize":3,"distanceMetric":"euclidean"}},"a.b.c":{"type":"integer"}}`

func c18Point(r *rand.Rand, id int) map[string]any {
	return map[string]any{"_id": PID(id).String(), "vf": []any{float64(r.IntN(9)), 1.0, 2.0}, "vv": []any{0.6, 0.8, 0.0}, "s": pick(r, []string{"x", "Y", "zed"}), "n": float64(r.IntN(50)), "f": 1.5, "t": "quick brown fox", "tags": []any{"a", "b"}, "meta": map[string]any{"k": "v"},
		// indexed properties three levels deep (validation and conversion must follow the whole path)
		"geo": map[string]any{"home": map[string]any{"coords": []any{float64(r.IntN(9)), 2.0, 1.0}}}, "a": map[string]any{"b": map[string]any{"c": float64(r.IntN(20))}}}
}

// base requests: (method, path, body tree, label when unmutated)
type c18Base struct {
	method, path string
	// body["__plan"] (removed before sending): the request is sent unmutated under that
	// plan id and labelled must4xx — it is fine under the plan the collection was created
	// with but exceeds a limit of the plan named by this request (the active plan decides)
	body map[string]any
}

// c18SmallPlan: plan "q" allows points of at most this many encoded bytes (plan "p": 20000).
const c18SmallPlanPointSize = 400

func c18PlanBases(r *rand.Rand) []c18Base {
	pad := strings.Repeat("p", 1500+r.IntN(2000))
	return []c18Base{
		{"POST", "/v1/collections/cv1/points", map[string]any{"points": []any{map[string]any{"id": PID(8000 + r.IntN(900)).String(), "vector": []any{1.0, 2.0, 3.0}, "metadata": map[string]any{"pad": pad}}}, "__plan": "q"}},
		{"PUT", "/v1/collections/cv1/points", map[string]any{"points": []any{map[string]any{"id": PID(6000).String(), "vector": []any{1.0, 2.0, 3.0}, "metadata": map[string]any{"pad": pad}}}, "__plan": "q"}},
		{"POST", "/v2/collections/cv2/points", map[string]any{"points": []any{map[string]any{"_id": PID(8900 + r.IntN(90)).String(), "vf": []any{1.0, 2.0, 3.0}, "meta": map[string]any{"pad": pad}}}, "__plan": "q"}},
	}
}

func c18Bases(r *rand.Rand, nextID *int, xv int) []c18Base {
	out := c18BasesMain(r, nextID)
	if xv > 0 {
		out = append(out, c18XBases(r, xv)...)
		out = append(out, c18PlanBases(r)...) // drawn only by specs that have XVariant (newer generator)
	}
	return out
}

func c18BasesMain(r *rand.Rand, nextID *int) []c18Base {
	v := func() []any { return []any{float64(r.IntN(5)), float64(r.IntN(5)), 1.0} }
	newPts := func(n int) []any {
		var out []any
		for i := 0; i < n; i++ {
			out = append(out, c18Point(r, *nextID))
			*nextID++
		}
		return out
	}
	id := func() string { return PID(r.IntN(max(*nextID, 1))).String() }
	searches := []map[string]any{
		{"query": map[string]any{"property": "geo.home.coords", "vectorFlat": map[string]any{"vector": v(), "operator": "near", "limit": 5.0, "filter": map[string]any{"property": "a.b.c", "integer": map[string]any{"value": 3.0, "operator": "greaterThan"}}}}, "limit": 5.0, "select": []any{"geo.home", "a.b.c"}},
		{"query": map[string]any{"property": "vf", "vectorFlat": map[string]any{"vector": v(), "operator": "near", "limit": 5.0}}, "limit": 5.0},
		{"query": map[string]any{"property": "vv", "vectorVamana": map[string]any{"vector": []any{0.6, 0.8, 0.0}, "operator": "near", "searchSize": 50.0, "limit": 5.0}}, "limit": 5.0, "select": []any{"s", "meta.k"}},
		{"query": map[string]any{"property": "t", "text": map[string]any{"value": "quick fox", "operator": "containsAny", "limit": 10.0}}, "limit": 10.0},
		{"query": map[string]any{"property": "_and", "_and": []any{map[string]any{"property": "n", "integer": map[string]any{"value": 3.0, "operator": "greaterThan"}}, map[string]any{"property": "s", "string": map[string]any{"value": "x", "operator": "equals"}}}}, "limit": 20.0, "sort": []any{map[string]any{"property": "n", "descending": true}}, "select": []any{"n"}},
		{"query": map[string]any{"property": "_id", "string": map[string]any{"value": id(), "operator": "equals"}}, "limit": 1.0},
		{"query": map[string]any{"property": "_or", "_or": []any{
			map[string]any{"property": "vf", "vectorFlat": map[string]any{"vector": v(), "operator": "near", "limit": 4.0}},
			map[string]any{"property": "t", "text": map[string]any{"value": "brown", "operator": "containsAll", "limit": 4.0, "weight": 0.3}}}}, "limit": 8.0},
		{"query": map[string]any{"property": "_and", "_and": []any{
			map[string]any{"property": "vv", "vectorVamana": map[string]any{"vector": []any{0.0, 0.6, 0.8}, "operator": "near", "searchSize": 40.0, "limit": 6.0}},
			map[string]any{"property": "_or", "_or": []any{
				map[string]any{"property": "vf", "vectorFlat": map[string]any{"vector": v(), "operator": "near", "limit": 6.0}},
				map[string]any{"property": "n", "integer": map[string]any{"value": 1.0, "operator": "greaterThanOrEquals"}}}}}}, "limit": 6.0},
		{"query": map[string]any{"property": "t", "text": map[string]any{"value": "fox", "operator": "containsAny", "limit": 5.0, "filter": map[string]any{"property": "_or", "_or": []any{
			map[string]any{"property": "vf", "vectorFlat": map[string]any{"vector": v(), "operator": "near", "limit": 3.0}}}}}}, "limit": 5.0},
		{"query": map[string]any{"property": "tags", "stringArray": map[string]any{"value": []any{"a"}, "operator": "containsAll"}}, "limit": 3.0, "offset": 1.0},
		{"query": map[string]any{"property": "vf", "vectorFlat": map[string]any{"vector": v(), "operator": "near", "limit": 5.0, "filter": map[string]any{"property": "f", "float": map[string]any{"value": 1.0, "operator": "inRange", "endValue": 2.0}}, "weight": 0.5}}, "limit": 5.0},
	}
	return []c18Base{
		{"POST", "/v2/collections", map[string]any{"id": fmt.Sprintf("c%05d", r.IntN(99999)), "indexSchema": json.RawMessage(c18SchemaJSON)}},
		{"GET", "/v2/collections", nil},
		{"GET", "/v2/collections/cv2", nil},
		{"POST", "/v2/collections/cv2/points", map[string]any{"points": newPts(1 + r.IntN(3))}},
		{"PUT", "/v2/collections/cv2/points", map[string]any{"points": []any{map[string]any{"_id": id(), "n": 7.0, "s": "_delete"}}}},
		{"DELETE", "/v2/collections/cv2/points", map[string]any{"ids": []any{id()}}},
		{"POST", "/v2/collections/cv2/points/search", pick(r, searches)},
		{"POST", "/v2/collections/cv2/points/search", pick(r, searches)},
		{"POST", "/v1/collections", map[string]any{"id": fmt.Sprintf("d%05d", r.IntN(99999)), "vectorSize": 3.0, "distanceMetric": "euclidean"}},
		{"GET", "/v1/collections", nil},
		{"GET", "/v1/collections/cv1", nil},
		{"POST", "/v1/collections/cv1/points", map[string]any{"points": []any{map[string]any{"id": PID(5000 + r.IntN(4000)).String(), "vector": v(), "metadata": map[string]any{"a": 1.0}}}}},
		{"PUT", "/v1/collections/cv1/points", map[string]any{"points": []any{map[string]any{"id": PID(6000).String(), "vector": v(), "metadata": "m"}}}},
		{"DELETE", "/v1/collections/cv1/points", map[string]any{"ids": []any{PID(6001).String()}}},
		{"POST", "/v1/collections/cv1/points/search", map[string]any{"vector": v(), "limit": 5.0}},
		// crossing the API versions on purpose: both share one namespace of collections
		{"POST", "/v1/collections/cv2/points/search", map[string]any{"vector": v(), "limit": 5.0}},
		{"POST", "/v1/collections/cv2/points", map[string]any{"points": []any{map[string]any{"vector": v()}}}},
		{"GET", "/v1/collections/cv2", nil},
		{"POST", "/v2/collections/cv1/points/search", map[string]any{"query": map[string]any{"property": "vector", "vectorVamana": map[string]any{"vector": v(), "operator": "near", "searchSize": 30.0, "limit": 3.0}}, "limit": 3.0}},
		{"GET", "/v2/collections/cv1", nil},
	}
}

// paths enumerates the JSON paths of a tree (for field-level mutation).
type c18Path []any

func c18Walk(t any, cur c18Path, out *[]c18Path) {
	switch x := t.(type) {
	case map[string]any:
		for _, k := range sortedKeys(x) {
			p := append(append(c18Path(nil), cur...), k)
			*out = append(*out, p)
			c18Walk(x[k], p, out)
		}
	case []any:
		for i := range x {
			p := append(append(c18Path(nil), cur...), i)
			*out = append(*out, p)
			c18Walk(x[i], p, out)
		}
	}
}

func c18Set(t any, p c18Path, v any, remove bool) any {
	if len(p) == 0 {
		return v
	}
	switch x := t.(type) {
	case map[string]any:
		k := p[0].(string)
		if len(p) == 1 && remove {
			delete(x, k)
			return x
		}
		x[k] = c18Set(x[k], p[1:], v, remove)
		return x
	case []any:
		i := p[0].(int)
		if i < len(x) {
			if len(p) == 1 && remove {
				return append(x[:i], x[i+1:]...)
			}
			x[i] = c18Set(x[i], p[1:], v, remove)
		}
		return x
	}
	return t
}

func c18Get(t any, p c18Path) any {
	for _, k := range p {
		switch x := t.(type) {
		case map[string]any:
			t = x[k.(string)]
		case []any:
			if i := k.(int); i < len(x) {
				t = x[i]
			} else {
				return nil
			}
		default:
			return nil
		}
	}
	return t
}

func deepCopy(t any) any {
	switch x := t.(type) {
	case map[string]any:
		m := map[string]any{}
		for k, v := range detRange(x) {
			m[k] = deepCopy(v)
		}
		return m
	case []any:
		a := make([]any, len(x))
		for i := range x {
			a[i] = deepCopy(x[i])
		}
		return a
	case json.RawMessage:
		var v any
		json.Unmarshal(x, &v)
		return v
	}
	return t
}

func vecOf(n int) []any {
	out := make([]any, n)
	for i := range out {
		out[i] = 0.5
	}
	return out
}

func deepNest(n int) any {
	var t any = "leaf"
	for i := 0; i < n; i++ {
		t = map[string]any{"k": t}
	}
	return t
}

func isVectorPath(p c18Path) bool {
	for _, k := range p {
		if s, ok := k.(string); ok && (s == "vector" || s == "vf" || s == "vv" || s == "coords") {
			return true
		}
	}
	return false
}

func lastKey(p c18Path) string {
	if s, ok := p[len(p)-1].(string); ok {
		return s
	}
	return ""
}

func (c18) Generate(r *rand.Rand, tier string) (sim.Config, any) {
	cfg := RandomSimConfig(r)
	cfg.StmtYield = pick(r, []float64{0, 0, 0.02, 0.1}) // statement-level preemption in the handler / cluster packages
	cfg.IdleLimitSec = 3600
	var p c18Params
	p.XVariant = 1 + r.IntN(len(c18XSchemas)-1)
	nextID := 12
	n := 40 + r.IntN(40)
	if tier == "thorough" {
		n = 80 + r.IntN(80)
	}
	for len(p.Reqs) < n {
		b := pick(r, c18Bases(r, &nextID, p.XVariant))
		req := c18Req{Method: b.method, Path: b.path, CT: "application/json", User: "hostile", Plan: "p", Label: "no5xx", Desc: "valid"}
		tree := deepCopy(map[string]any(b.body))
		if b.body == nil {
			tree = nil
		}
		useMsgpack := r.IntN(10) < 3
		var rawOverride []byte
		if pl, ok := b.body["__plan"].(string); ok {
			delete(tree.(map[string]any), "__plan")
			req.Plan, req.Label, req.Desc = pl, "must4xx", "point larger than the active plan "+pl+" allows"
		} else if r.IntN(10) < 8 { // mutate
			switch x := r.IntN(20); {
			case x < 11 && tree != nil: // field-level
				var paths []c18Path
				c18Walk(tree, nil, &paths)
				if len(paths) == 0 {
					continue
				}
				pth := pick(r, paths)
				old := c18Get(tree, pth)
				key := lastKey(pth)
				switch m := r.IntN(16); {
				case m == 0:
					tree = c18Set(tree, pth, nil, true)
					req.Desc = fmt.Sprintf("remove %v", pth)
				case m == 1:
					tree = c18Set(tree, pth, nil, false)
					req.Desc = fmt.Sprintf("null at %v", pth)
				case m == 2:
					tree = c18Set(tree, pth, "a string", false)
					req.Desc = fmt.Sprintf("string at %v", pth)
				case m == 3:
					tree = c18Set(tree, pth, 42.0, false)
					req.Desc = fmt.Sprintf("number at %v", pth)
				case m == 4:
					tree = c18Set(tree, pth, []any{}, false)
					req.Desc = fmt.Sprintf("empty array at %v", pth)
				case m == 5:
					tree = c18Set(tree, pth, map[string]any{"x": 1.0}, false)
					req.Desc = fmt.Sprintf("object at %v", pth)
				case m == 6:
					tree = c18Set(tree, pth, true, false)
					req.Desc = fmt.Sprintf("bool at %v", pth)
				case m == 7 || m == 8:
					if _, isArr := old.([]any); isArr && isVectorPath(pth) {
						nl := pick(r, []int{0, 1, c18Dim - 1, c18Dim + 1, 4096, 4097})
						tree = c18Set(tree, pth, vecOf(nl), false)
						req.Desc = fmt.Sprintf("vector length %d at %v", nl, pth)
						req.Label = "must4xx"
						if strings.Contains(b.path, "cvx") {
							// cvx has other dimensions than cv1 / cv2 (a drawn length may be the valid
							// one): only the generic oracles judge, incl. the distance-length guard
							req.Label = "no5xx"
						}
					} else {
						tree = c18Set(tree, pth, pick(r, []any{-1.0, 0.0, 76.0, 101.0, 1e9, 24.0, 0.5}), false)
						req.Desc = fmt.Sprintf("boundary number at %v", pth)
						if key == "limit" || key == "searchSize" {
							req.Label = "no5xx"
						}
					}
				case m == 9:
					useMsgpack = true
					tree = c18Set(tree, pth, pick(r, []any{math.NaN(), math.Inf(1), math.Inf(-1), 1e308, -1e308, float32(3.4e38)}), false)
					req.Desc = fmt.Sprintf("NaN/Inf/huge at %v", pth)
					req.Label = "nojudge"
				case m == 10:
					tree = c18Set(tree, pth, strings.Repeat("L", pick(r, []int{0, 5000, 70000})), false)
					req.Desc = fmt.Sprintf("empty/long string at %v", pth)
				case m == 11:
					useMsgpack = true
					tree = c18Set(tree, pth, string([]byte{0xff, 0xfe, 0x00, 0x80}), false)
					req.Desc = fmt.Sprintf("non-UTF8 string at %v", pth)
				case m == 12:
					tree = c18Set(tree, pth, deepNest(pick(r, []int{50, 2000})), false)
					req.Desc = fmt.Sprintf("deep nesting at %v", pth)
				case m == 13:
					if key == "operator" {
						tree = c18Set(tree, pth, pick(r, []string{"nearby", "", "EQUALS", "contains"}), false)
						req.Label = "must4xx"
						req.Desc = fmt.Sprintf("unknown operator at %v", pth)
					} else if key == "property" {
						tree = c18Set(tree, pth, pick(r, []string{"nope", "_id", "_and", "_or", "", "vf.x"}), false)
						req.Desc = fmt.Sprintf("reserved/unknown property at %v", pth)
					} else if key == "_id" || key == "id" {
						bad := pick(r, []string{"not-a-uuid", "", "00000000-0000-0000-0000-00000000000g"})
						tree = c18Set(tree, pth, bad, false)
						req.Desc = fmt.Sprintf("bad uuid at %v", pth)
						// (the v1 insert treats an empty id as "generate one")
						if !strings.HasSuffix(b.path, "/collections") && !(bad == "" && key == "id" && b.method == "POST") {
							req.Label = "must4xx"
						}
					} else {
						continue
					}
				case m == 14:
					if mm, ok := old.(map[string]any); ok {
						mm[pick(r, []string{"extra", "_id", "__proto__", "vector"})] = pick(r, []any{1.0, "x", []any{1.0}})
						req.Desc = fmt.Sprintf("extra field at %v", pth)
					} else {
						continue
					}
				default:
					if arr, ok := old.([]any); ok && len(arr) > 0 {
						big := make([]any, pick(r, []int{101, 300}))
						for i := range big {
							big[i] = arr[0]
						}
						tree = c18Set(tree, pth, big, false)
						req.Desc = fmt.Sprintf("oversized list at %v", pth)
					} else {
						continue
					}
				}
			case x < 13:
				req.CT = pick(r, []string{"", "text/plain", "application/xml", "application/json; charset=utf-8", "application/msgpack"})
				req.Desc = "content type " + req.CT
				if b.body != nil && req.CT != "application/msgpack" {
					req.Label = "must4xx"
				}
			case x < 15:
				rawOverride = make([]byte, r.IntN(200))
				for i := range rawOverride {
					rawOverride[i] = byte(r.IntN(256))
				}
				req.Desc = "random bytes"
				if b.body != nil {
					req.Label = "must4xx"
				}
			case x < 16:
				if tree != nil {
					full, _ := json.Marshal(tree)
					if r.IntN(2) == 0 { // a MessagePack body cut anywhere, often on an element boundary
						if mp, err := msgpack.Marshal(tree); err == nil {
							full = mp
							req.CT = "application/msgpack"
						}
					}
					cut := r.IntN(len(full) + 1)
					rawOverride = full[:cut]
					req.Desc = fmt.Sprintf("body truncated to %d of %d bytes", cut, len(full))
					if cut < len(full) {
						// a strict prefix of an encoded object / map is never a complete document
						req.Label = "must4xx"
					}
				}
			case x < 17:
				if tree != nil {
					full, _ := json.Marshal(tree)
					// duplicate the first key with a different value
					rawOverride = append([]byte(`{"points":7,"query":7,"id":"dup",`), full[1:]...)
					req.Desc = "duplicate keys"
				}
			case x < 18:
				req.User = pick(r, []string{"", "hostile"})
				req.Plan = pick(r, []string{"", "nope", "p"})
				req.Desc = "headers user=" + req.User + " plan=" + req.Plan
				if req.User == "" || req.Plan != "p" {
					req.Label = "must4xx"
				}
			default:
				req.Path = strings.Replace(strings.Replace(req.Path, "cvx", "cv2", 1), "cv2", pick(r, []string{"x", "a-b", "nope12", strings.Repeat("z", 30), "CV2", "cv2%2F..", "cv1"}), 1)
				req.Desc = "collection id " + req.Path
			}
		}
		switch {
		case rawOverride != nil:
			req.Body = rawOverride
		case tree == nil:
			req.Body = nil
		case useMsgpack && req.CT == "application/json":
			req.CT = "application/msgpack"
			bb, err := msgpack.Marshal(tree)
			if err != nil {
				continue
			}
			req.Body = bb
		default:
			bb, err := json.Marshal(tree)
			if err != nil {
				continue // NaN etc. in JSON mode
			}
			req.Body = bb
		}
		p.Reqs = append(p.Reqs, req)
	}
	return cfg, p
}

func (c18) Sample(raw json.RawMessage) any {
	var p c18Params
	json.Unmarshal(raw, &p)
	var out []string
	for i, q := range p.Reqs {
		if i >= 12 {
			break
		}
		out = append(out, fmt.Sprintf("%s %s [%s] %s", q.Method, q.Path, q.Label, q.Desc))
	}
	return map[string]any{"requests": len(p.Reqs), "first": out}
}

func (c18) Shrink(raw json.RawMessage) []json.RawMessage {
	var p c18Params
	json.Unmarshal(raw, &p)
	var out []json.RawMessage
	if len(p.Reqs) > 1 {
		out = append(out, mustJSON(c18Params{XVariant: p.XVariant, Reqs: p.Reqs[len(p.Reqs)/2:]}), mustJSON(c18Params{XVariant: p.XVariant, Reqs: p.Reqs[:len(p.Reqs)/2]}))
		for i := len(p.Reqs) - 1; i >= 0; i-- {
			q := c18Params{XVariant: p.XVariant, Reqs: append(append([]c18Req(nil), p.Reqs[:i]...), p.Reqs[i+1:]...)}
			out = append(out, mustJSON(q))
		}
	}
	return out
}

func (c18) Execute(env *Env) {
	var p c18Params
	if err := json.Unmarshal(env.Spec.Params, &p); err != nil {
		env.Infra("bad params: %v", err)
		return
	}
	sw := NewStoreWorld()
	sw.Install()
	defer sw.Uninstall()
	net := NewSimNet(nil, 0)
	net.Install()
	defer net.Uninstall()
	seedUUIDs(env.Spec.Seed)
	defer uuid.SetRand(nil)
	plan := models.UserPlan{Name: "p", MaxCollections: 50, MaxCollectionPointCount: 400, MaxPointSize: 20000}
	ok2xx, ok4xx := 0, 0
	poisoned := false
	out := env.RunSim(env.Spec.Sim, func() {
		w := NewClusterWorld(env, sw, net, clusterTemplate(8, 1, 300))
		small := plan
		small.Name, small.MaxPointSize = "q", c18SmallPlanPointSize
		w.Plans = map[string]models.UserPlan{"p": plan, "q": small}
		if err := w.StartNode(0, []string{NodeAddr(0)}); err != nil {
			env.Infra("start node: %v", err)
			return
		}
		a := NodeAddr(0)
		do := func(method, path string, body any) int {
			b, _ := json.Marshal(body)
			st, _, _ := w.HTTP(a, method, path, "hostile", "p", "application/json", b)
			return st
		}
		r := rand.New(rand.NewPCG(env.Spec.Seed, 18))
		if st := do("POST", "/v2/collections", map[string]any{"id": "cv2", "indexSchema": json.RawMessage(c18SchemaJSON)}); st != 200 {
			env.Infra("setup: create cv2: %d", st)
			return
		}
		var pts []any
		for i := 0; i < 12; i++ {
			pts = append(pts, c18Point(r, i))
		}
		if st := do("POST", "/v2/collections/cv2/points", map[string]any{"points": pts}); st != 200 {
			env.Infra("setup: insert cv2: %d", st)
			return
		}
		if st := do("POST", "/v1/collections", map[string]any{"id": "cv1", "vectorSize": 3, "distanceMetric": "euclidean"}); st != 200 {
			env.Infra("setup: create cv1: %d", st)
			return
		}
		var p1 []any
		for i := 0; i < 6; i++ {
			p1 = append(p1, map[string]any{"id": PID(6000 + i).String(), "vector": []float64{float64(i), 1, 2}, "metadata": map[string]any{"i": i}})
		}
		if st := do("POST", "/v1/collections/cv1/points", map[string]any{"points": p1}); st != 200 {
			env.Infra("setup: insert cv1: %d", st)
			return
		}
		if p.XVariant > 0 {
			x := c18XSchemas[p.XVariant]
			if st := do("POST", "/v2/collections", map[string]any{"id": "cvx", "indexSchema": json.RawMessage(x.schema)}); st != 200 {
				env.Infra("setup: create cvx (variant %d): %d", p.XVariant, st)
				return
			}
			var px []any
			for i := 0; i < 3; i++ {
				px = append(px, map[string]any{"_id": PID(7950 + i).String(), "vector": x.value, "k": float64(i)})
			}
			if st := do("POST", "/v2/collections/cvx/points", map[string]any{"points": px}); st != 200 {
				env.Infra("setup: insert cvx (variant %d): %d", p.XVariant, st)
				return
			}
		}
		for i, q := range p.Reqs {
			before, err := clusterDigest(w)
			if err != nil {
				env.Infra("digest: %v", err)
				return
			}
			st, body, _ := w.HTTP(a, q.Method, q.Path, q.User, q.Plan, q.CT, q.Body)
			where := fmt.Sprintf("request %d: %s %s (%s; %s) body %s", i, q.Method, q.Path, q.CT, q.Desc, c18Preview(q))
			env.Stat(fmt.Sprintf("status-%dxx", st/100), 1)
			switch {
			case st >= 200 && st < 300:
				ok2xx++
			case st >= 400 && st < 500:
				ok4xx++
			}
			// once a request with non-finite numbers has been accepted by a write endpoint,
			// later distances are no longer finite: such answers are outside the property
			if q.Label == "nojudge" && st < 300 && (q.Method == "POST" || q.Method == "PUT") && strings.HasSuffix(q.Path, "/points") {
				poisoned = true
				env.Stat("non-finite-data-stored", 1)
			}
			if st >= 500 && q.Label != "nojudge" && !poisoned {
				env.Violate("server-error", "5xx:"+c18Sig(q, body), "%s answered %d: %s", where, st, trunc(string(body), 300))
				return
			}
			if q.Label == "must4xx" && (st < 400 || st >= 500) {
				env.Violate("not-refused", "accepted:"+c18Sig(q, body), "%s violates the documented schema but was answered %d: %s", where, st, trunc(string(body), 300))
				return
			}
			if st >= 400 && st < 500 {
				after, err := clusterDigest(w)
				if err != nil {
					env.Violate("side-effect", "state-unreadable-after-4xx", "%s: stored state unreadable after the refused request: %v", where, err)
					return
				}
				if after != before {
					env.Violate("side-effect", "4xx-changed-state:"+c18Sig(q, body), "%s was refused with %d but changed stored state", where, st)
					return
				}
			}
		}
	})
	if n := out.Counters["probe:distance-length-mismatch"]; n > 0 && !env.Violated() {
		env.Violate("unvalidated-vector", "distance-length-mismatch", "%d distance computations received operands of different length", n)
	}
	env.SetNonTrivial(ok2xx >= 10 && ok4xx >= 10)
}

func trunc(s string, n int) string {
	if len(s) > n {
		return s[:n] + "…"
	}
	return s
}

func c18Preview(q c18Req) string {
	if q.CT == "application/msgpack" {
		var v any
		if msgpack.NewDecoder(bytes.NewReader(q.Body)).Decode(&v) == nil {
			return trunc(fmt.Sprintf("msgpack%v", v), 400)
		}
	}
	return trunc(string(q.Body), 400)
}

// c18Sig: endpoint + first words of the error (digits removed) — stable under
// shrinking, specific enough to tell findings apart.
func c18Sig(q c18Req, body []byte) string {
	ep := q.Method + " " + q.Path
	for _, c := range []string{"cv1", "cv2"} {
		ep = strings.Replace(ep, c, "{"+c+"}", 1)
	}
	var m map[string]any
	json.Unmarshal(body, &m)
	msg := stripDigits(fmt.Sprint(m["error"]))
	if len(msg) > 40 {
		msg = msg[:40]
	}
	return ep + ":" + msg
}
