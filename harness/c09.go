package harness

import (
	"regexp"
	"encoding/json"
	"fmt"
	"os"
	"math/rand/v2"
	"sort"
	"strings"

	"github.com/anishathalye/porcupine"
	"github.com/google/uuid"
	"github.com/semafind/semadb/models"
	sim "github.com/semafind/semadb/zzsimrt"
)

// C09 — concurrent searches and writes are safe and every search sees committed data.
type c09Client struct {
	Writer   bool                   `json:"writer"`
	Ops      []Op                   `json:"ops,omitempty"`      // writer
	Searches []models.SearchRequest `json:"searches,omitempty"` // searcher
}

type c09Params struct {
	Schema       models.IndexSchema     `json:"schema"`
	CacheSize    int64                  `json:"cache_size"`
	MaxPointSize int                    `json:"max_point_size"`
	IDPool       int                    `json:"id_pool"`
	Seed         []Op                   `json:"seed_ops"` // sequential prefix that populates the shard
	Warmth       string                 `json:"warmth"`   // cold | half | warm
	Clients      []c09Client            `json:"clients"`
	Panel        []models.SearchRequest `json:"panel"`
}

type c09 struct{}

func init() { Register(c09{}) }

func (c09) ID() string { return "C09" }

func (c09) Rule() string {
	return "each run = a file-backed real shard with a shared cache (cold, half-warm or warm at start), populated by a sequential prefix, then 2-4 searcher tasks (vector graph / flat, text, filter and _id reads, with and without pre-filters) and 1-2 writer tasks (3-8 insert/update/delete batches, every written document carries a unique version stamp, id ranges of the writers overlap in a third of the runs) running concurrently; the seeded scheduler picks the next task at every storage operation, transaction begin/commit/end, cache-manager lock, node lock, channel and WaitGroup operation (random, PCT and sticky strategies). History: invoke/return of every call and every storage commit stamped with the global event sequence number. Oracle: no panic in any goroutine, no use of a storage handle after its transaction ended, no search error; every returned (id, document) equals a committed version of that id that was live in a committed state inside the search's interval; per-id histories of _id reads and writes are linearizable against a register model (porcupine); write calls succeed/fail and report ids exactly as the model applied in storage-transaction order; final state = model; warm panel = cold panel. Non-trivial: >= 1 search overlapped a commit (its interval contains a commit stamp). Distinct: (trace hash, final state)."
}

func stampDocs(ops []Op, next *int) {
	for i := range ops {
		for j := range ops[i].Points {
			*next++
			ops[i].Points[j].Doc["ver"] = VI(int64(*next))
		}
	}
}

func offsetIDs(ops []Op, off int) {
	for i := range ops {
		for j := range ops[i].Points {
			ops[i].Points[j].ID += off
		}
		for j := range ops[i].IDs {
			ops[i].IDs[j] += off
		}
	}
}

func (c09) Generate(r *rand.Rand, tier string) (sim.Config, any) {
	cfg := RandomSimConfig(r)
	cfg.StmtYield = pick(r, []float64{0, 0, 0.02, 0.1}) // statement-level preemption in shard.go, the index dispatch, the inverted / text indexes and the pipeline helpers
	cfg.TimeJumpProb = pick(r, []float64{0, 0, 0.02})    // timers (there are none on the pinned tree) may fire while stages are parked
	old := vecStyle
	vecStyle = pickVecStyle(r)
	defer func() { vecStyle = old }()
	if cfg.Strategy != "pct" && r.IntN(2) == 0 {
		cfg.Strategy = "pct"
		cfg.PCTDepth = 1 + r.IntN(3)
		cfg.PCTHorizon = []int{200, 600, 2000, 6000}[r.IntN(4)]
	}
	schema := models.IndexSchema{
		"vv": {Type: models.IndexTypeVectorVamana, VectorVamana: genVamanaParams(r, 2+r.IntN(3), false)},
		"s":  {Type: models.IndexTypeString, String: &models.IndexStringParameters{CaseSensitive: true}},
	}
	if r.IntN(2) == 0 {
		schema["t"] = models.IndexSchemaValue{Type: models.IndexTypeText, Text: &models.IndexTextParameters{Analyser: "standard"}}
	}
	if r.IntN(2) == 0 {
		schema["vf"] = models.IndexSchemaValue{Type: models.IndexTypeVectorFlat, VectorFlat: genFlatParams(r, 2+r.IntN(3), false)}
	}
	if r.IntN(3) == 0 {
		schema["n"] = models.IndexSchemaValue{Type: models.IndexTypeInteger}
	}
	per := 10
	p := c09Params{Schema: schema, MaxPointSize: 3000, Warmth: pick(r, []string{"cold", "cold", "half", "warm"})}
	p.CacheSize = pick(r, []int64{-1, -1, -1, 8000})
	ver := 0
	nWriters := 1 + r.IntN(2)
	nSearchers := 2 + r.IntN(3)
	overlap := r.IntN(3) == 0
	p.IDPool = per * (nWriters + 1)
	// seed data: ids of the shared range [0, per) and a few of each writer's range
	p.Seed = GenHistory(r, schema, p.MaxPointSize, HistoryOpts{NOps: 2 + r.IntN(3), IDPool: p.IDPool, MaxBatch: 10, PIndexed: 0.9})
	var kept []Op
	for _, op := range p.Seed {
		if op.Kind == "insert" {
			kept = append(kept, op)
		}
	}
	p.Seed = kept
	stampDocs(p.Seed, &ver)
	nb := 3 + r.IntN(6)
	if tier == "thorough" {
		nb = 4 + r.IntN(8)
	}
	for wi := 0; wi < nWriters; wi++ {
		// each writer generates against its own id range; with overlap both use the whole pool
		pool, off := per, per*(wi+1)
		if overlap {
			pool, off = p.IDPool, 0
		}
		ops := GenHistory(r, schema, p.MaxPointSize, HistoryOpts{NOps: nb, IDPool: pool, MaxBatch: 6, PIndexed: 0.9})
		offsetIDs(ops, off)
		stampDocs(ops, &ver)
		p.Clients = append(p.Clients, c09Client{Writer: true, Ops: ops})
	}
	for si := 0; si < nSearchers; si++ {
		var qs []models.SearchRequest
		ns := 3 + r.IntN(6)
		for k := 0; k < ns; k++ {
			switch x := r.IntN(10); {
			case x < 3:
				n := 1 + r.IntN(6)
				ids := make([]string, n)
				for i := range ids {
					ids[i] = PID(r.IntN(p.IDPool)).String()
				}
				qs = append(qs, models.SearchRequest{Query: models.Query{Property: "_id", StringArray: &models.SearchStringArrayOptions{Value: ids, Operator: models.OperatorContainsAny}}, Select: []string{"*"}})
			case x < 8:
				qs = append(qs, models.SearchRequest{Query: *genRankQuery(r, schema, pick(r, rankProps(schema)), p.IDPool, true), Select: []string{"*"}})
			default:
				qs = append(qs, models.SearchRequest{Query: *genFilterTree(r, schema, p.IDPool, 1), Select: []string{"*"}})
			}
		}
		p.Clients = append(p.Clients, c09Client{Searches: qs})
	}
	r.Shuffle(len(p.Clients), func(i, j int) { p.Clients[i], p.Clients[j] = p.Clients[j], p.Clients[i] })
	p.Panel = GenPanel(r, schema, p.IDPool, 6)
	addStalls(r, &cfg)
	return cfg, p
}

func (c09) Sample(raw json.RawMessage) any {
	var p c09Params
	json.Unmarshal(raw, &p)
	var cl []string
	for _, c := range p.Clients {
		if c.Writer {
			k := []string{}
			for _, o := range c.Ops {
				k = append(k, fmt.Sprintf("%s/%d", o.Kind, len(o.Points)+len(o.IDs)))
			}
			cl = append(cl, "writer["+strings.Join(k, " ")+"]")
		} else {
			cl = append(cl, fmt.Sprintf("searcher[%d searches]", len(c.Searches)))
		}
	}
	return map[string]any{"schema": p.Schema, "warmth": p.Warmth, "cache_size": p.CacheSize, "clients": cl}
}

func (c09) Shrink(raw json.RawMessage) []json.RawMessage {
	var p c09Params
	json.Unmarshal(raw, &p)
	var out []json.RawMessage
	for i := range p.Clients {
		if len(p.Clients) > 1 {
			q := p
			q.Clients = append(append([]c09Client(nil), p.Clients[:i]...), p.Clients[i+1:]...)
			out = append(out, mustJSON(q))
		}
	}
	for i, c := range p.Clients {
		if c.Writer {
			for j := len(c.Ops) - 1; j >= 0; j-- {
				q := p
				q.Clients = append([]c09Client(nil), p.Clients...)
				nc := c
				nc.Ops = append(append([]Op(nil), c.Ops[:j]...), c.Ops[j+1:]...)
				q.Clients[i] = nc
				out = append(out, mustJSON(q))
			}
		} else {
			for j := len(c.Searches) - 1; j >= 0; j-- {
				q := p
				q.Clients = append([]c09Client(nil), p.Clients...)
				nc := c
				nc.Searches = append(append([]models.SearchRequest(nil), c.Searches[:j]...), c.Searches[j+1:]...)
				q.Clients[i] = nc
				out = append(out, mustJSON(q))
			}
		}
	}
	for _, ops := range shrinkOps(p.Seed) {
		q := p
		q.Seed = ops
		out = append(out, mustJSON(q))
	}
	if len(p.Panel) > 0 {
		q := p
		q.Panel = nil
		out = append(out, mustJSON(q))
	}
	return out
}

// ---- history ----------------------------------------------------------------

type c09Write struct {
	client   int
	op       Op
	inv, ret uint64
	txSeq    int    // order of write-lock acquisition (0 = never reached the storage layer)
	commit   uint64 // event stamp of the storage commit (0 = not committed)
	err      error
	ids      []uuid.UUID
}

type c09Search struct {
	client   int
	req      models.SearchRequest
	inv, ret uint64
	ans      Answer
}

type regInput struct {
	write   bool
	version int64 // -1 = delete / absent
}

func docVersion(d Doc) int64 {
	if d == nil {
		return -1
	}
	if v, ok := d["ver"].(int64); ok {
		return v
	}
	return -2
}

var registerModel = porcupine.Model{
	Init: func() interface{} { return int64(-1) },
	Step: func(state, input, output interface{}) (bool, interface{}) {
		in := input.(regInput)
		if in.write {
			return true, in.version
		}
		return output.(int64) == state.(int64), state
	},
	Equal: func(a, b interface{}) bool { return a.(int64) == b.(int64) },
}

func (c09) Execute(env *Env) {
	var p c09Params
	if err := json.Unmarshal(env.Spec.Params, &p); err != nil {
		env.Infra("bad params: %v", err)
		return
	}
	sw := NewStoreWorld()
	sw.Install()
	defer sw.Uninstall()
	col := models.Collection{UserId: "u", Id: "c", UserPlan: models.UserPlan{MaxPointSize: p.MaxPointSize}, IndexSchema: p.Schema}
	model := NewRefShard(p.MaxPointSize)
	var writes []*c09Write
	var searches []*c09Search
	cur := map[string]*c09Write{} // task id -> write call in flight
	txSeq := 0
	overlapped := 0
	env.RunSim(env.Spec.Sim, func() {
		w := NewShardWorld(env, sw, col, "bbolt", p.CacheSize)
		if err := w.Open(); err != nil {
			env.Infra("open: %v", err)
			return
		}
		defer w.Close()
		for i, op := range p.Seed {
			if !applyOp(env, w, model, i, op) {
				return
			}
		}
		switch p.Warmth {
		case "cold":
			w.Reopen()
		case "half":
			w.Reopen()
			if len(p.Panel) > 0 {
				w.Ask(p.Panel[0])
			}
		case "warm":
			w.AskPanel(p.Panel)
		}
		initial := model.Clone()
		sw.OnWriteLocked = func() {
			if c := cur[sim.CurrentTask()]; c != nil {
				txSeq++
				c.txSeq = txSeq
			}
		}
		sw.OnCommitted = func() {
			if c := cur[sim.CurrentTask()]; c != nil {
				c.commit = sim.Seq()
			}
		}
		done := make(chan int, len(p.Clients))
		for ci, cl := range p.Clients {
			sim.Go("c09-client", func() {
				defer func() { done <- ci }()
				me := sim.CurrentTask()
				if cl.Writer {
					for _, op := range cl.Ops {
						if op.Kind != "insert" && op.Kind != "update" && op.Kind != "delete" {
							continue
						}
						rec := &c09Write{client: ci, op: op}
						writes = append(writes, rec)
						cur[me] = rec
						rec.inv = sim.Seq()
						switch op.Kind {
						case "insert":
							rec.err = w.Insert(op.Points)
						case "update":
							rec.ids, rec.err = w.Update(op.Points)
						case "delete":
							rec.ids, rec.err = w.Delete(op.IDs)
						}
						rec.ret = sim.Seq()
						delete(cur, me)
					}
					return
				}
				for _, req := range cl.Searches {
					rec := &c09Search{client: ci, req: req}
					searches = append(searches, rec)
					rec.inv = sim.Seq()
					rec.ans = w.Ask(req)
					rec.ret = sim.Seq()
					if os.Getenv("SIM_DEBUG") != "" {
						fmt.Fprintf(os.Stderr, "DBG search c%d [%d,%d] %s -> err=%q %s\n", ci, rec.inv, rec.ret, jsonStr(req.Query), rec.ans.Err, fmtItems(rec.ans.Items))
					}
				}
			})
		}
		for range p.Clients {
			sim.Recv("c09-root", (<-chan int)(done))
		}
		sw.OnWriteLocked, sw.OnCommitted = nil, nil
		if env.Violated() {
			return
		}
		// ---- writes: replay on the model in storage-transaction order
		sort.SliceStable(writes, func(i, j int) bool {
			a, b := writes[i], writes[j]
			if (a.txSeq == 0) != (b.txSeq == 0) {
				return a.txSeq == 0 // never reached storage (rejected before the transaction): no effect, order irrelevant
			}
			return a.txSeq < b.txSeq
		})
		type state struct {
			stamp uint64
			m     *RefShard
		}
		timeline := []state{{0, initial}}
		m := initial.Clone()
		for _, wr := range writes {
			where := fmt.Sprintf("client %d %s batch (tx #%d)", wr.client, wr.op.Kind, wr.txSeq)
			var rejected bool
			var want []uuid.UUID
			switch wr.op.Kind {
			case "insert":
				rejected = m.Insert(wr.op.Points)
			case "update":
				want, rejected = m.Update(wr.op.Points)
			case "delete":
				want = m.Delete(wr.op.IDs)
			}
			if rejected != (wr.err != nil) {
				sig := "concurrent-write-outcome"
				if wr.err != nil && !rejected {
					sig += ":spurious-rejection:" + errSigSite(wr.err.Error()) // a valid batch was refused: name the failing site
				}
				env.Violate("wrong-answer", sig, "%s: call returned error %v but applying the batches in storage-transaction order the model says rejected=%v", where, wr.err, rejected)
				return
			}
			if wr.err == nil && wr.op.Kind != "insert" && !sameIDSet(wr.ids, want) {
				env.Violate("wrong-answer", "concurrent-write-ids", "%s: reported ids [%s], model in transaction order [%s]", where, fmtIDs(wr.ids), fmtIDs(want))
				return
			}
			if wr.err == nil {
				if wr.commit == 0 {
					env.Violate("atomicity", "success-without-commit", "%s: the call reported success but no storage commit was observed", where)
					return
				}
				timeline = append(timeline, state{wr.commit, m.Clone()})
			} else if wr.commit != 0 {
				env.Violate("atomicity", "error-after-commit", "%s: the call reported %v although its storage transaction committed", where, wr.err)
				return
			}
		}
		sort.SliceStable(timeline, func(i, j int) bool { return timeline[i].stamp < timeline[j].stamp })
		// ---- searches
		for _, s := range searches {
			where := fmt.Sprintf("client %d search %s during [%d,%d]", s.client, jsonStr(s.req.Query), s.inv, s.ret)
			if s.ans.Err != "" {
				env.Violate("spurious-error", "concurrent-search-error:"+errSigSite(s.ans.Err), "%s failed: %s", where, s.ans.Err)
				return
			}
			// states the search may have observed: the last one committed before it began up to the last one committed before it returned
			lo, hi := 0, 0
			for i, st := range timeline {
				if st.stamp < s.inv {
					lo = i
				}
				if st.stamp < s.ret {
					hi = i
				}
			}
			if hi > lo {
				overlapped++
			}
			for _, it := range s.ans.Items {
				ok := false
				for i := lo; i <= hi && !ok; i++ {
					if d, live := timeline[i].m.Docs[PID(it.ID)]; live && (it.Doc == nil || DocEqual(d, it.Doc)) {
						ok = true
					}
				}
				if !ok {
					env.Violate("wrong-answer", "search-saw-uncommitted", "%s returned id %d with document %v, which is not a committed version of that point in any of the %d committed states inside the search interval", where, it.ID, it.Doc, hi-lo+1)
					return
				}
			}
		}
		// ---- per-id register linearizability of _id reads and writes (porcupine)
		var hist []porcupine.Operation
		keyOf := func(id int) int { return id }
		for _, wr := range writes {
			if wr.err != nil {
				continue
			}
			switch wr.op.Kind {
			case "insert", "update":
				for _, pt := range wr.op.Points {
					if wr.op.Kind == "update" {
						found := false
						for _, u := range wr.ids {
							if u == PID(pt.ID) {
								found = true
							}
						}
						if !found {
							continue
						}
					}
					hist = append(hist, porcupine.Operation{ClientId: wr.client*1000 + keyOf(pt.ID), Input: regInput{write: true, version: *pt.Doc["ver"].I}, Call: int64(wr.inv), Output: int64(0), Return: int64(wr.ret)})
				}
			case "delete":
				for _, u := range wr.ids {
					hist = append(hist, porcupine.Operation{ClientId: wr.client*1000 + PIDIndex(u), Input: regInput{write: true, version: -1}, Call: int64(wr.inv), Output: int64(0), Return: int64(wr.ret)})
				}
			}
		}
		byKey := map[int][]porcupine.Operation{}
		for _, op := range hist {
			k := op.ClientId % 1000
			op.ClientId = op.ClientId / 1000
			byKey[k] = append(byKey[k], op)
		}
		for _, s := range searches {
			if s.req.Query.Property != "_id" || s.req.Query.StringArray == nil {
				continue
			}
			got := map[int]int64{}
			for _, it := range s.ans.Items {
				got[it.ID] = docVersion(it.Doc)
			}
			seen := map[int]bool{}
			for _, str := range s.req.Query.StringArray.Value {
				u, _ := uuid.Parse(str)
				id := PIDIndex(u)
				if seen[id] {
					continue
				}
				seen[id] = true
				v, ok := got[id]
				if !ok {
					v = -1
				}
				byKey[id] = append(byKey[id], porcupine.Operation{ClientId: s.client, Input: regInput{}, Call: int64(s.inv), Output: v, Return: int64(s.ret)})
			}
		}
		for id, ops := range detRange(byKey) {
			// the register starts with the seeded value
			init := docVersion(initial.Docs[PID(id)])
			if _, ok := initial.Docs[PID(id)]; !ok {
				init = -1
			}
			mdl := registerModel
			mdl.Init = func() interface{} { return init }
			env.Stat("porcupine-histories", 1)
			env.Stat("porcupine-ops", len(ops))
			if len(ops) > 60 {
				env.Stat("porcupine-skipped-long", 1)
				continue
			}
			if !porcupine.CheckOperations(mdl, ops) {
				var desc []string
				for _, o := range ops {
					desc = append(desc, fmt.Sprintf("c%d %+v->%v [%d,%d]", o.ClientId, o.Input, o.Output, o.Call, o.Return))
				}
				env.Violate("linearizability", "id-register", "history of point %d (initial version %d) is not linearizable as a register: %s", id, init, strings.Join(desc, "; "))
				return
			}
		}
		// ---- final state
		*model = *m
		if !w.AuditDocs(model, allIDs(p.IDPool), "after all clients finished [warm]") {
			return
		}
		if len(p.Panel) > 0 {
			cold, err := w.ColdCopy(-1)
			if err != nil {
				env.Violate("durability", "cold-open", "after all clients finished: %v", err)
				return
			}
			defer cold.Discard()
			if !cold.AuditDocs(model, allIDs(p.IDPool), "after all clients finished [cold copy]") {
				return
			}
			wa, ca := w.AskPanel(p.Panel), cold.AskPanel(p.Panel)
			for i := range wa {
				if wa[i].Err != "" {
					env.Violate("spurious-error", "search-error-after:"+errSigSite(wa[i].Err), "after all clients finished: query %d failed on the warm instance: %s", i, wa[i].Err)
					return
				}
			}
			if i, d := ComparePanels(p.Panel, wa, ca); i >= 0 {
				sig := "warm-vs-cold-after-concurrency"
				if overlapped > 0 {
					sig += ":a-search-overlapped-a-commit"
				}
				env.Violate("cache-dependence", sig, "after all clients finished: warm instance and cold copy disagree on query %d %s: %s", i, jsonStr(p.Panel[i].Query), d)
				return
			}
		}
	})
	env.Stat("searches", len(searches))
	env.Stat("writes", len(writes))
	env.Stat("searches-overlapping-a-commit", overlapped)
	env.SetNonTrivial(overlapped >= 1)
	env.SetStateHash(model.StateKey())
}

// errSigSite is errSigStr, but an error that ends in the bare cache sentinel "not
// found" keeps the segment before it too (the call site that missed), so that a
// listed finding names one site and not every cache miss.
func errSigSite(msg string) string {
	seg := msg
	if i := lastIndex(msg, ": "); i >= 0 {
		seg = msg[i+2:]
		if seg == "not found" {
			if j := lastIndex(msg[:i], ": "); j >= 0 {
				seg = msg[j+2:]
			}
		}
	}
	seg = stripIDs(seg)
	if len(seg) > 64 {
		seg = seg[:64]
	}
	return seg
}

var uuidRe = regexp.MustCompile(`[0-9a-fA-F-]{8,}`)

// stripIDs removes uuids / long hex runs and digits, so that one failing site is one signature.
func stripIDs(s string) string { return stripDigits(uuidRe.ReplaceAllString(s, "<id>")) }
