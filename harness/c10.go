package harness

import (
	"encoding/binary"
	"encoding/json"
	"fmt"
	"math"
	"math/rand/v2"

	"github.com/google/uuid"
	"github.com/semafind/semadb/models"
	sim "github.com/semafind/semadb/zzsimrt"
)

// C10 — the persisted similarity graph stays well-formed after every write.
type c10Params struct {
	Schema       models.IndexSchema `json:"schema"`
	CacheSize    int64              `json:"cache_size"`
	MaxPointSize int                `json:"max_point_size"`
	IDPool       int                `json:"id_pool"`
	Ops          []Op               `json:"ops"` // kind "delete-nbhd": IDs[0] is a point whose whole out-neighbourhood is deleted with it
}

type c10 struct{}

func init() { Register(c10{}) }

func (c10) ID() string { return "C10" }

func (c10) Rule() string {
	return "each run = a seeded history of insert / update / delete batches on a real shard with a Vamana index (legal degree bounds, alphas, search sizes, six metrics, optional binary quantiser): large inserts (to exceed the degree bound), updates that add, change and remove the vector field of different points in one batch, deletes of a point together with all its out-neighbours (read from the previous dump), re-insertion into freed node ids, reopen; 1-4 insert workers interleaved by the seeded scheduler, map orders (EdgeScan, Flush, free-id list) permuted. After every successful write the committed file is dumped and checked: node set = vector set = {entry} + node ids of live points carrying the field; every edge target exists and differs from its source; degree <= bound except the entry node; recorded max node id >= all ids; points bucket is a bijection uuid <-> node id equal to the model's id set; free list disjoint from live ids, without duplicates, next-free id above all ids; stored plain vectors equal the model's. Non-trivial: >= 3 checked states with >= 8 graph nodes and at least one delete or vector update. Distinct: (trace hash, final state)."
}

func (c10) Generate(r *rand.Rand, tier string) (sim.Config, any) {
	cfg := RandomSimConfig(r)
	old := vecStyle
	vecStyle = pickVecStyle(r)
	defer func() { vecStyle = old }()
	schema := models.IndexSchema{"vv": {Type: models.IndexTypeVectorVamana, VectorVamana: genVamanaParams(r, 2+r.IntN(4), r.IntN(3) == 0)}}
	if r.IntN(3) == 0 {
		schema["s"] = models.IndexSchemaValue{Type: models.IndexTypeString, String: &models.IndexStringParameters{}}
	}
	p := c10Params{Schema: schema, MaxPointSize: 3000, IDPool: 30 + r.IntN(70)}
	p.CacheSize = pick(r, []int64{-1, -1, 0, 6000})
	nops := 5 + r.IntN(8)
	if tier == "thorough" {
		nops = 8 + r.IntN(20)
	}
	maxBatch := pick(r, []int{6, 12, 30})
	ops := GenHistory(r, schema, p.MaxPointSize, HistoryOpts{NOps: nops, IDPool: p.IDPool, MaxBatch: maxBatch, AllowReopen: true, PIndexed: 0.8})
	for i := range ops {
		if ops[i].Kind == "delete" && r.IntN(2) == 0 && len(ops[i].IDs) > 0 {
			ops[i] = Op{Kind: "delete-nbhd", IDs: ops[i].IDs[:1]}
		}
	}
	p.Ops = ops
	return cfg, p
}

func (c10) Sample(raw json.RawMessage) any {
	var p c10Params
	json.Unmarshal(raw, &p)
	kinds := []string{}
	for _, o := range p.Ops {
		kinds = append(kinds, fmt.Sprintf("%s/%d", o.Kind, len(o.Points)+len(o.IDs)))
	}
	return map[string]any{"schema": p.Schema, "cache_size": p.CacheSize, "ops": kinds}
}

func (c10) Shrink(raw json.RawMessage) []json.RawMessage {
	var p c10Params
	json.Unmarshal(raw, &p)
	var out []json.RawMessage
	for _, ops := range shrinkOps(p.Ops) {
		q := p
		q.Ops = ops
		out = append(out, mustJSON(q))
	}
	return out
}

func nodeKey(id uint64, suffix byte) string {
	var k [10]byte
	k[0] = 'n'
	binary.LittleEndian.PutUint64(k[1:], id)
	k[9] = suffix
	return string(k[:])
}

func parseNodeKey(k string) (uint64, byte, bool) {
	if len(k) != 10 || k[0] != 'n' {
		return 0, 0, false
	}
	return binary.LittleEndian.Uint64([]byte(k[1:9])), k[9], true
}

func u64list(b []byte) []uint64 {
	out := make([]uint64, len(b)/8)
	for i := range out {
		out[i] = binary.LittleEndian.Uint64(b[8*i:])
	}
	return out
}

// PointsBijection checks the points bucket and returns uuid -> node id.
func PointsBijection(d Dump, m *RefShard) (map[uuid.UUID]uint64, string) {
	pts := d["points"]
	byUUID := map[uuid.UUID]uint64{}
	byNode := map[uint64]uuid.UUID{}
	for k, v := range detRange(pts) {
		if len(k) == 18 && k[0] == 'p' && k[17] == 'i' {
			var u uuid.UUID
			copy(u[:], k[1:17])
			if len(v) != 8 {
				return nil, fmt.Sprintf("point key of %v holds %d bytes", u, len(v))
			}
			byUUID[u] = binary.LittleEndian.Uint64(v)
			continue
		}
		if id, suffix, ok := parseNodeKey(k); ok {
			switch suffix {
			case 'i':
				u, err := uuid.FromBytes(v)
				if err != nil {
					return nil, fmt.Sprintf("node %d holds a malformed uuid", id)
				}
				byNode[id] = u
			case 'd':
			default:
				return nil, fmt.Sprintf("unexpected key suffix %q in the points bucket", suffix)
			}
			continue
		}
		return nil, fmt.Sprintf("unexpected key %x in the points bucket", k)
	}
	for u, id := range detRange(byUUID) {
		if back, ok := byNode[id]; !ok || back != u {
			return nil, fmt.Sprintf("point %d maps to node %d but node %d maps back to %v", PIDIndex(u), id, id, back)
		}
	}
	for id, u := range detRange(byNode) {
		if fwd, ok := byUUID[u]; !ok || fwd != id {
			return nil, fmt.Sprintf("node %d maps to point %d but that point maps to node %d (present %v): two live points share or lost a node id", id, PIDIndex(u), fwd, ok)
		}
	}
	for k := range detRange(pts) {
		if id, suffix, ok := parseNodeKey(k); ok && suffix == 'd' {
			if _, live := byNode[id]; !live {
				return nil, fmt.Sprintf("node %d has stored data but no point id", id)
			}
		}
	}
	if len(byUUID) != len(m.Docs) {
		return nil, fmt.Sprintf("%d points stored, model has %d", len(byUUID), len(m.Docs))
	}
	for u := range detRange(m.Docs) {
		if _, ok := byUUID[u]; !ok {
			return nil, fmt.Sprintf("model point %d is not in the points bucket", PIDIndex(u))
		}
	}
	return byUUID, ""
}

// CheckFreeList checks the id allocator state against the live node ids.
func CheckFreeList(d Dump, live map[uint64]bool) string {
	in := d["internal"]
	next := uint64(2)
	if b, ok := in["nextFreeNodeId"]; ok && len(b) == 8 {
		next = binary.LittleEndian.Uint64(b)
	}
	seen := map[uint64]bool{}
	for _, id := range u64list(in["freeNodeIds"]) {
		if seen[id] {
			return fmt.Sprintf("node id %d is twice on the free list", id)
		}
		seen[id] = true
		if live[id] {
			return fmt.Sprintf("node id %d is live and on the free list", id)
		}
		if id >= next {
			return fmt.Sprintf("free node id %d is not below the next fresh id %d", id, next)
		}
		if id < 2 {
			return fmt.Sprintf("reserved node id %d is on the free list", id)
		}
	}
	for id := range detRange(live) {
		if id >= next {
			return fmt.Sprintf("live node id %d is not below the next fresh id %d (it would be handed out again)", id, next)
		}
		if id < 2 {
			return fmt.Sprintf("a live point uses the reserved node id %d", id)
		}
	}
	return ""
}

// CheckGraph checks the well-formedness of one Vamana index bucket.
func CheckGraph(d Dump, schema models.IndexSchema, prop string, m *RefShard, nodeOf map[uuid.UUID]uint64) (nodes int, msg string) {
	vp := schema[prop].VectorVamana
	b := d[indexBucketName(schema, prop)]
	edges := map[uint64][]uint64{}
	vecs := map[uint64]bool{}
	plain := map[uint64][]byte{}
	quantised := map[uint64]bool{}
	var maxRecorded uint64
	hasMax := false
	for k, v := range detRange(b) {
		if id, suffix, ok := parseNodeKey(k); ok {
			switch suffix {
			case 'e':
				if len(v)%8 != 0 {
					return 0, fmt.Sprintf("edge list of node %d has %d bytes", id, len(v))
				}
				edges[id] = u64list(v)
			case 'v':
				vecs[id] = true
				plain[id] = v
			case 'q':
				vecs[id] = true
				quantised[id] = true
			default:
				return 0, fmt.Sprintf("unexpected node key suffix %q", suffix)
			}
			continue
		}
		if k == "_vamanaMaxNodeId" {
			maxRecorded, hasMax = binary.LittleEndian.Uint64(v), true
		}
	}
	expected := map[uint64]uuid.UUID{}
	dim := int(vp.VectorSize)
	for u, doc := range detRange(m.Docs) {
		if _, ok := docVector(doc, prop, dim); ok {
			expected[nodeOf[u]] = u
		}
	}
	if len(edges) == 0 && len(vecs) == 0 && len(expected) == 0 {
		return 0, ""
	}
	const entry = 1
	if _, ok := edges[entry]; !ok {
		return 0, "the entry node has no edge list"
	}
	if !vecs[entry] {
		return 0, "the entry node has no vector"
	}
	for id := range detRange(edges) {
		if id == entry {
			continue
		}
		if _, ok := expected[id]; !ok {
			return 0, fmt.Sprintf("graph node %d does not belong to a live point that carries the vector field", id)
		}
		if !vecs[id] {
			return 0, fmt.Sprintf("graph node %d has no stored vector", id)
		}
	}
	for id := range detRange(vecs) {
		if _, ok := edges[id]; !ok {
			return 0, fmt.Sprintf("stored vector %d has no graph node", id)
		}
	}
	for id, u := range detRange(expected) {
		if _, ok := edges[id]; !ok {
			return 0, fmt.Sprintf("live point %d (node %d) carries the vector field but has no graph node", PIDIndex(u), id)
		}
	}
	var maxID uint64
	for id, es := range detRange(edges) {
		if id > maxID {
			maxID = id
		}
		if id != entry && len(es) > vp.DegreeBound {
			return 0, fmt.Sprintf("node %d has %d edges, degree bound is %d", id, len(es), vp.DegreeBound)
		}
		for _, t := range es {
			if t == id {
				return 0, fmt.Sprintf("node %d has an edge to itself", id)
			}
			if _, ok := edges[t]; !ok {
				return 0, fmt.Sprintf("node %d has an edge to node %d which does not exist", id, t)
			}
		}
	}
	if !hasMax || maxRecorded < maxID {
		return 0, fmt.Sprintf("recorded maximum node id %d (present %v) is below node id %d in use", maxRecorded, hasMax, maxID)
	}
	// stored full vectors must be the model's
	for id, u := range detRange(expected) {
		raw, ok := plain[id]
		if !ok || quantised[id] {
			// once a quantised code exists it is the stored vector; a full vector left behind is never read
			continue
		}
		want, _ := docVector(m.Docs[u], prop, dim)
		if len(raw) != 4*dim {
			return 0, fmt.Sprintf("stored vector of node %d has %d bytes", id, len(raw))
		}
		for i := range want {
			if math.Float32frombits(binary.LittleEndian.Uint32(raw[4*i:])) != want[i] {
				return 0, fmt.Sprintf("stored vector of point %d differs from the vector last written", PIDIndex(u))
			}
		}
	}
	return len(edges), ""
}

func (c10) Execute(env *Env) {
	var p c10Params
	if err := json.Unmarshal(env.Spec.Params, &p); err != nil {
		env.Infra("bad params: %v", err)
		return
	}
	sw := NewStoreWorld()
	sw.Install()
	defer sw.Uninstall()
	col := models.Collection{UserId: "u", Id: "c", UserPlan: models.UserPlan{MaxPointSize: p.MaxPointSize}, IndexSchema: p.Schema}
	model := NewRefShard(p.MaxPointSize)
	bigStates, mutated := 0, false
	env.RunSim(env.Spec.Sim, func() {
		w := NewShardWorld(env, sw, col, "bbolt", p.CacheSize)
		if err := w.Open(); err != nil {
			env.Infra("open: %v", err)
			return
		}
		defer w.Close()
		var lastDump Dump
		var lastNodeOf map[uuid.UUID]uint64
		for i, op := range p.Ops {
			if op.Kind == "delete-nbhd" {
				// resolve the neighbourhood from the previous dump
				ids := append([]int(nil), op.IDs...)
				if lastDump != nil && len(op.IDs) > 0 {
					if nid, ok := lastNodeOf[PID(op.IDs[0])]; ok {
						byNode := map[uint64]uuid.UUID{}
						for u, n := range detRange(lastNodeOf) {
							byNode[n] = u
						}
						for _, t := range u64list(lastDump[indexBucketName(p.Schema, "vv")][nodeKey(nid, 'e')]) {
							if u, ok := byNode[t]; ok {
								ids = append(ids, PIDIndex(u))
							}
						}
						env.Stat("neighbourhood-deletes", 1)
						env.Stat("neighbourhood-size", len(ids))
					}
				}
				op = Op{Kind: "delete", IDs: ids}
			}
			if op.Kind == "delete" || op.Kind == "update" {
				mutated = true
			}
			if !applyOp(env, w, model, i, op) {
				return
			}
			if op.Kind == "evict" {
				continue
			}
			d, err := DumpFile(w.Path)
			if err != nil {
				env.Violate("wellformed", "file-unreadable", "after op %d (%s): %v", i, op.Kind, err)
				return
			}
			where := fmt.Sprintf("after op %d (%s)", i, op.Kind)
			nodeOf, msg := PointsBijection(d, model)
			if msg != "" {
				env.Violate("wellformed", "points-bijection", "%s: %s", where, msg)
				return
			}
			live := map[uint64]bool{}
			for _, n := range detRange(nodeOf) {
				live[n] = true
			}
			if msg := CheckFreeList(d, live); msg != "" {
				env.Violate("wellformed", "free-list", "%s: %s", where, msg)
				return
			}
			n, msg := CheckGraph(d, p.Schema, "vv", model, nodeOf)
			if msg != "" {
				env.Violate("wellformed", "graph:"+stripDigits(msg)[:min(30, len(stripDigits(msg)))], "%s: %s", where, msg)
				return
			}
			env.Stat("states-checked", 1)
			if n >= 8 {
				bigStates++
			}
			lastDump, lastNodeOf = d, nodeOf
		}
	})
	env.SetNonTrivial(bigStates >= 3 && mutated)
	env.SetStateHash(model.StateKey())
}
