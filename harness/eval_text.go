package harness

import (
	"fmt"
	"math"

	"github.com/blevesearch/bleve/v2/analysis"
	_ "github.com/blevesearch/bleve/v2/analysis/analyzer/standard"
	bleveregistry "github.com/blevesearch/bleve/v2/registry"
	"github.com/google/uuid"
)

// Text evaluation of the reference model (C05): tf-idf over the current
// corpus, computed independently of semadb's text index from the model's
// documents. The shared dependency is bleve's "standard" analyser, used
// directly (semadb's wrapper is not).

var refAnalyserCache = bleveregistry.NewCache()
var refAnalyser analysis.Analyzer

func analyse(text string) []string {
	if refAnalyser == nil {
		a, err := refAnalyserCache.AnalyzerNamed("standard")
		if err != nil {
			panic(err)
		}
		refAnalyser = a
	}
	ts := refAnalyser.Analyze([]byte(text))
	out := make([]string, len(ts))
	for i, t := range ts {
		out[i] = string(t.Term)
	}
	return out
}

type textDoc struct {
	freq map[string]int
	len  int
}

// textCorpus analyses every live document that carries a string under prop.
func (m *RefShard) textCorpus(prop string) map[uuid.UUID]textDoc {
	out := map[uuid.UUID]textDoc{}
	for id, d := range detRange(m.Docs) {
		raw, ok := Lookup(d, prop)
		if !ok {
			continue
		}
		s, ok := raw.(string)
		if !ok {
			continue
		}
		toks := analyse(s)
		if len(toks) == 0 {
			continue // a document that analyses to nothing is not part of the corpus
		}
		td := textDoc{freq: map[string]int{}, len: len(toks)}
		for _, t := range toks {
			td.freq[t]++
		}
		out[id] = td
	}
	return out
}

// EvalText returns the score of every matching document (restricted to filter)
// and the number of distinct analysed query terms.
func (m *RefShard) EvalText(prop, query, operator string, filter *IDSet) (map[uuid.UUID]float64, int) {
	corpus := m.textCorpus(prop)
	terms := map[string]bool{}
	for _, t := range analyse(query) {
		terms[t] = true
	}
	df := map[string]int{}
	for t := range detRange(terms) {
		for _, td := range detRange(corpus) {
			if td.freq[t] > 0 {
				df[t]++
			}
		}
	}
	n := float64(len(corpus))
	out := map[uuid.UUID]float64{}
	for id, td := range detRange(corpus) {
		if filter != nil && !filter.Must[id] {
			continue
		}
		hit, all := false, true
		for t := range detRange(terms) {
			if td.freq[t] > 0 {
				hit = true
			} else {
				all = false
			}
		}
		match := hit
		if operator == "containsAll" {
			match = all && len(terms) > 0
		}
		if !match {
			continue
		}
		score := 0.0
		for t := range detRange(terms) {
			tf := float64(td.freq[t]) / float64(td.len)
			score += tf * math.Log10(n/float64(df[t]+1))
		}
		out[id] = score
	}
	return out, len(terms)
}

// CheckTextAnswer: members of the match set, distinct, at most limit,
// non-increasing score order, score = tf-idf, hybrid = weight*score, and the
// tie-tolerant top-limit cut.
func CheckTextAnswer(want map[uuid.UUID]float64, got []Item, limit int, weight *float32) string {
	w := float64(1)
	if weight != nil {
		w = float64(*weight)
	}
	neg := map[uuid.UUID]float64{}
	for id, s := range detRange(want) {
		neg[id] = -s
	}
	seen := map[int]bool{}
	prev := math.Inf(1)
	for i, it := range got {
		if seen[it.ID] {
			return fmt.Sprintf("id %d returned twice", it.ID)
		}
		seen[it.ID] = true
		ref, ok := want[PID(it.ID)]
		if !ok {
			return fmt.Sprintf("id %d returned but its text does not match (or it is outside the filter)", it.ID)
		}
		if it.Score == nil {
			return fmt.Sprintf("id %d has no _score", it.ID)
		}
		s := float64(*it.Score)
		if !closeF(s, ref) {
			return fmt.Sprintf("id %d: reported score %g, tf-idf over the current corpus gives %g", it.ID, s, ref)
		}
		if s > prev && !closeF(s, prev) {
			return fmt.Sprintf("results not in non-increasing score order at position %d (%g after %g)", i, s, prev)
		}
		prev = s
		if !closeF(float64(it.Hybrid), w*s) {
			return fmt.Sprintf("id %d: hybrid score %g, expected weight*score = %g", it.ID, it.Hybrid, w*s)
		}
	}
	return CheckExactTopK(neg, got, limit)
}
