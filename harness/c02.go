package harness

import (
	"encoding/json"
	"fmt"
	"os"
	"math/rand/v2"

	"github.com/semafind/semadb/models"
	sim "github.com/semafind/semadb/zzsimrt"
)

// C02 — filter queries return exactly the live points that satisfy the predicate.
type c02Params struct {
	Schema       models.IndexSchema `json:"schema"`
	Backend      string             `json:"backend"`
	CacheSize    int64              `json:"cache_size"`
	MaxPointSize int                `json:"max_point_size"`
	IDPool       int                `json:"id_pool"`
	Ops          []Op               `json:"ops"`
	Queries      [][]models.Query   `json:"queries"` // asked after op i
	ColdEvery    int                `json:"cold_every"`
	EmptyString  bool               `json:"empty_string,omitempty"`
}

type c02 struct{}

func init() { Register(c02{}) }

func (c02) ID() string { return "C02" }

func (c02) Rule() string {
	return "each run = a seeded write history (inserts, updates that change/add/remove indexed fields incl. nested paths, deletes, reopen) on a real shard with string (case-sensitive or not), string-array, integer and float indexes, under one seeded schedule of the write pipeline; after every write a seeded panel of filter queries (every operator, boundary operands: min/max int64, +-0.0, subnormals, non-ASCII and case variants, prefixes; _and/_or trees to depth 3; _id lookups) is evaluated on the warm instance and periodically on a cold copy, and the returned id set must equal the reference model's. Non-trivial: >= 10 queries had a non-empty expected answer on >= 3 distinct model states. Distinct: (trace hash, final state)."
}

func c02Schema(r *rand.Rand) models.IndexSchema {
	for {
		s := GenSchema(r, SchemaOpts{Strings: true, Ints: true, Floats: true, Arrays: true, Text: r.IntN(4) == 0, Flat: r.IntN(6) == 0, MaxDim: 3})
		if len(filterProps(s)) >= 2 {
			return s
		}
	}
}

func (c02) Generate(r *rand.Rand, tier string) (sim.Config, any) {
	cfg := RandomSimConfig(r)
	p := c02Params{Schema: c02Schema(r), Backend: "bbolt", MaxPointSize: 2000, IDPool: 10 + r.IntN(14), ColdEvery: 2 + r.IntN(3)}
	p.CacheSize = pick(r, []int64{-1, 0, 5000})
	if r.IntN(5) == 0 {
		p.Backend = "mem"
	}
	nops := 5 + r.IntN(10)
	nq := 10
	if tier == "thorough" {
		nops = 8 + r.IntN(20)
		nq = 16
	}
	p.Ops = GenHistory(r, p.Schema, p.MaxPointSize, HistoryOpts{NOps: nops, IDPool: p.IDPool, MaxBatch: 8, AllowReopen: true, PIndexed: 0.8})
	if r.IntN(25) == 0 {
		// boundary: the empty string as an indexed value (kept rare: on the pinned
		// tree such a batch fails as a whole, see known_findings.txt)
		p.EmptyString = true
		for i := range p.Ops {
			for j := range p.Ops[i].Points {
				d := p.Ops[i].Points[j].Doc
				if v, ok := d["s"]; ok && v.S != nil && r.IntN(3) == 0 {
					d["s"] = VS("")
				}
				if v, ok := d["tags"]; ok && v.A != nil && len(*v.A) > 0 && r.IntN(3) == 0 {
					(*v.A)[0] = ""
				}
			}
		}
	}
	p.Queries = make([][]models.Query, len(p.Ops))
	for i, op := range p.Ops {
		if op.Kind == "evict" {
			continue
		}
		for k := 0; k < nq; k++ {
			p.Queries[i] = append(p.Queries[i], *genFilterTree(r, p.Schema, p.IDPool, 0))
		}
	}
	return cfg, p
}

func (c02) Sample(raw json.RawMessage) any {
	var p c02Params
	json.Unmarshal(raw, &p)
	kinds := []string{}
	for _, o := range p.Ops {
		kinds = append(kinds, o.Kind)
	}
	var q any
	for _, qs := range p.Queries {
		if len(qs) > 0 {
			q = qs[0]
			break
		}
	}
	return map[string]any{"schema": p.Schema, "backend": p.Backend, "ops": kinds, "first_query": q, "first_op": firstOp(p.Ops)}
}

func (c02) Shrink(raw json.RawMessage) []json.RawMessage {
	var p c02Params
	json.Unmarshal(raw, &p)
	var out []json.RawMessage
	// drop trailing ops (queries are aligned with ops)
	for n := len(p.Ops) / 2; n >= 1 && n < len(p.Ops); n = n + max(1, (len(p.Ops)-n)/2) {
		q := p
		q.Ops, q.Queries = p.Ops[:n], p.Queries[:n]
		out = append(out, mustJSON(q))
	}
	for i := len(p.Ops) - 1; i >= 0; i-- {
		q := p
		q.Ops = append(append([]Op(nil), p.Ops[:i]...), p.Ops[i+1:]...)
		q.Queries = append(append([][]models.Query(nil), p.Queries[:i]...), p.Queries[i+1:]...)
		out = append(out, mustJSON(q))
	}
	// keep a single query per op
	for i := range p.Queries {
		if len(p.Queries[i]) > 1 {
			for k := range p.Queries[i] {
				q := p
				q.Queries = append([][]models.Query(nil), p.Queries...)
				q.Queries[i] = []models.Query{p.Queries[i][k]}
				out = append(out, mustJSON(q))
			}
		}
	}
	for i := range p.Queries {
		if len(p.Queries[i]) == 1 {
			subs := append(append([]models.Query(nil), p.Queries[i][0].And...), p.Queries[i][0].Or...)
			for _, sq := range subs {
				q := p
				q.Queries = append([][]models.Query(nil), p.Queries...)
				q.Queries[i] = []models.Query{sq}
				out = append(out, mustJSON(q))
			}
		}
	}
	for i := range p.Ops {
		for j := range p.Ops[i].Points {
			q := p
			q.Ops = append([]Op(nil), p.Ops...)
			o := q.Ops[i]
			o.Points = append(append([]PointSpec(nil), o.Points[:j]...), o.Points[j+1:]...)
			q.Ops[i] = o
			out = append(out, mustJSON(q))
		}
	}
	return out
}

func (c02) Execute(env *Env) {
	var p c02Params
	if err := json.Unmarshal(env.Spec.Params, &p); err != nil {
		env.Infra("bad params: %v", err)
		return
	}
	sw := NewStoreWorld()
	sw.Install()
	defer sw.Uninstall()
	col := models.Collection{UserId: "u", Id: "c", UserPlan: models.UserPlan{MaxPointSize: p.MaxPointSize}, IndexSchema: p.Schema}
	model := NewRefShard(p.MaxPointSize)
	states := map[string]bool{}
	nonEmpty := 0
	env.RunSim(env.Spec.Sim, func() {
		w := NewShardWorld(env, sw, col, p.Backend, p.CacheSize)
		if err := w.Open(); err != nil {
			env.Infra("open: %v", err)
			return
		}
		defer w.Close()
		for i, op := range p.Ops {
			if !applyOp(env, w, model, i, op) {
				return
			}
			if os.Getenv("SIM_DEBUG") != "" && p.Backend == "bbolt" {
				d, _ := DumpFile(w.Path)
				for b, m := range detRange(d) {
					for k, v := range detRange(m) {
						fmt.Fprintf(os.Stderr, "DBG op%d %s %x = %x\n", i, b, k, v)
					}
				}
			}
			if len(p.Queries[i]) == 0 {
				continue
			}
			states[model.StateKey()] = true
			targets := []*ShardWorld{w}
			names := []string{"warm"}
			if p.Backend == "bbolt" && p.ColdEvery > 0 && i%p.ColdEvery == 0 {
				cold, err := w.ColdCopy(0)
				if err != nil {
					env.Violate("spurious-error", "cold-open", "after op %d: cannot open a copy of the file: %v", i, err)
					return
				}
				defer cold.Discard()
				targets = append(targets, cold)
				names = append(names, "cold copy")
			}
			for qi, q := range p.Queries[i] {
				want, err := model.EvalFilter(p.Schema, q)
				if err != nil {
					env.Infra("model cannot evaluate query: %v", err)
					return
				}
				if len(want.Must) > 0 {
					nonEmpty++
				}
				for ti, t := range targets {
					a := t.Ask(models.SearchRequest{Query: q, Select: []string{"*"}})
					env.Stat("queries", 1)
					if a.Err != "" {
						env.Violate("spurious-error", "filter-error", "after op %d (%s), %s, query %d %s failed: %s", i, op.Kind, names[ti], qi, jsonStr(q), a.Err)
						return
					}
					if d := CheckIDSet(want, a.Items); d != "" {
						env.Violate("wrong-answer", "filter:"+offendingLeaf(t, model, p.Schema, q), "after op %d (%s), %s instance, query %s: %s; returned %v", i, op.Kind, names[ti], jsonStr(q), d, sortedIDs(a.Items))
						return
					}
					// documents returned by a search must be the stored ones
					for _, it := range a.Items {
						if wantDoc := model.Docs[PID(it.ID)]; it.Doc != nil && !DocEqual(wantDoc, it.Doc) {
							env.Violate("wrong-answer", "filter-document", "after op %d, query %s: id %d came back with document %v, stored %v", i, jsonStr(q), it.ID, it.Doc, wantDoc)
							return
						}
					}
				}
			}
		}
	})
	env.Stat("model-states", len(states))
	env.Stat("nonempty-expected", nonEmpty)
	env.SetNonTrivial(len(states) >= 3 && nonEmpty >= 10)
	env.SetStateHash(model.StateKey())
}

func jsonStr(v any) string {
	b, _ := json.Marshal(compactQuery(v))
	return string(b)
}

// compactQuery drops null members of a query for readable messages.
func compactQuery(v any) any {
	b, _ := json.Marshal(v)
	var x any
	json.Unmarshal(b, &x)
	return stripNulls(x)
}

func stripNulls(x any) any {
	switch t := x.(type) {
	case map[string]any:
		for k, v := range detRange(t) {
			if v == nil {
				delete(t, k)
			} else {
				t[k] = stripNulls(v)
			}
		}
	case []any:
		for i := range t {
			t[i] = stripNulls(t[i])
		}
	}
	return x
}

// offendingLeaf finds the first leaf of a mismatching query tree that is wrong
// on its own and names its index type and operator (violation signature:
// stable under shrinking, specific enough for known findings).
func offendingLeaf(t *ShardWorld, m *RefShard, schema models.IndexSchema, q models.Query) string {
	var leaves []models.Query
	var walk func(q models.Query)
	walk = func(q models.Query) {
		switch q.Property {
		case "_and":
			for _, s := range q.And {
				walk(s)
			}
		case "_or":
			for _, s := range q.Or {
				walk(s)
			}
		default:
			leaves = append(leaves, q)
		}
	}
	walk(q)
	for _, l := range leaves {
		want, err := m.EvalFilter(schema, l)
		if err != nil {
			continue
		}
		a := t.Ask(models.SearchRequest{Query: l, Select: []string{"*"}})
		if a.Err != "" || CheckIDSet(want, a.Items) != "" {
			return leafSig(l)
		}
	}
	return "combination"
}

func leafSig(q models.Query) string {
	switch {
	case q.Property == "_id":
		return "_id"
	case q.String != nil:
		return "string." + q.String.Operator
	case q.Integer != nil:
		return "integer." + q.Integer.Operator
	case q.Float != nil:
		return "float." + q.Float.Operator
	case q.StringArray != nil:
		return "stringArray." + q.StringArray.Operator
	}
	return "?"
}
