package harness

import (
	"encoding/json"
	"errors"
	"fmt"
	"math/rand/v2"

	"github.com/semafind/semadb/shard/cache"
	sim "github.com/semafind/semadb/zzsimrt"
)

// C11 — shared-cache transactions isolate writers, drop failed state, release locks.
// World M: the real cache.Manager alone, with synthetic cachables that mirror a
// tiny versioned "committed storage" kept by the harness.

type c11Access struct {
	Name       string `json:"name"`
	ReadOnly   bool   `json:"read_only"`
	FailCreate bool   `json:"fail_create,omitempty"`
	FailCb     bool   `json:"fail_cb,omitempty"`
	Yields     int    `json:"yields"`
}

type c11Tx struct {
	Writer      bool        `json:"writer"`
	Accesses    []c11Access `json:"accesses"`
	Parallel    bool        `json:"parallel,omitempty"` // accesses run in their own goroutines (index pipelines of one write batch)
	StorageFail bool        `json:"storage_fail,omitempty"`
	StartDelay  int         `json:"start_delay"`
}

type c11Params struct {
	MaxSize  int64   `json:"max_size"`
	ObjSize  int64   `json:"obj_size"`
	Txs      []c11Tx `json:"txs"`
	Releases []struct {
		Name  string `json:"name"`
		Delay int    `json:"delay"`
	} `json:"releases,omitempty"`
}

type c11 struct{}

func init() { Register(c11{}) }

func (c11) ID() string { return "C11" }

func (c11) Rule() string {
	return "each run = the real cache.Manager (size limit -1, 0 or small) driven by up to 3 concurrent transactions, each a program of 1-4 With(name in {a,b}, read-only or writing) accesses (sequential or in parallel goroutines like the index pipelines of one batch) followed by Commit; callbacks and constructors fail per the fault plan, storage failure makes Commit(true); a chaos task calls Release at seeded moments and small limits make checkAndPrune evict; writers hold a storage-writer token released before Commit exactly as shard.go does with bbolt. Every lock operation inside With/Commit/checkAndPrune and every yield inside callbacks is a scheduling point. Invariants on instrumented callbacks: (I1) from a transaction's first write access to an object until its Commit returns no other transaction's callback runs on that object; (I2) an object touched by a failed callback, or write-accessed by a transaction that ended failed, is never handed out again; (I3) an object handed out contains only committed writes plus the holder's own, and everything committed before the holder's snapshot; (I4) no deadlock, and afterwards a fresh writing transaction on every name completes; (I5) after Release/eviction the next access rebuilds from committed storage. Non-trivial: >= 2 transactions contended for the same name with at least one writer. Distinct: trace hash."
}

func (c11) Generate(r *rand.Rand, tier string) (sim.Config, any) {
	cfg := RandomSimConfig(r)
	cfg.YieldDensity = 1
	p := c11Params{MaxSize: pick(r, []int64{-1, -1, 0, 100, 150}), ObjSize: 80}
	ntx := 2 + r.IntN(2)
	if tier == "thorough" && r.IntN(2) == 0 {
		ntx = 3
	}
	for i := 0; i < ntx; i++ {
		t := c11Tx{Writer: r.IntN(2) == 0, StartDelay: r.IntN(6)}
		na := 1 + r.IntN(4)
		for k := 0; k < na; k++ {
			a := c11Access{Name: pick(r, []string{"a", "b"}), ReadOnly: !t.Writer || r.IntN(4) == 0, Yields: r.IntN(4)}
			if r.IntN(12) == 0 {
				a.FailCreate = true
			}
			if r.IntN(10) == 0 {
				a.FailCb = true
			}
			t.Accesses = append(t.Accesses, a)
		}
		t.Parallel = t.Writer && r.IntN(2) == 0
		t.StorageFail = t.Writer && r.IntN(8) == 0
		p.Txs = append(p.Txs, t)
	}
	for i := 0; i < r.IntN(3); i++ {
		p.Releases = append(p.Releases, struct {
			Name  string `json:"name"`
			Delay int    `json:"delay"`
		}{pick(r, []string{"a", "b"}), r.IntN(20)})
	}
	return cfg, p
}

func (c11) Sample(raw json.RawMessage) any {
	var p c11Params
	json.Unmarshal(raw, &p)
	return p
}

func (c11) Shrink(raw json.RawMessage) []json.RawMessage {
	var p c11Params
	json.Unmarshal(raw, &p)
	var out []json.RawMessage
	for i := range p.Txs {
		if len(p.Txs) > 1 {
			q := p
			q.Txs = append(append([]c11Tx(nil), p.Txs[:i]...), p.Txs[i+1:]...)
			out = append(out, mustJSON(q))
		}
	}
	if len(p.Releases) > 0 {
		q := p
		q.Releases = nil
		out = append(out, mustJSON(q))
	}
	for i, t := range p.Txs {
		for j := range t.Accesses {
			if len(t.Accesses) > 1 {
				q := p
				q.Txs = append([]c11Tx(nil), p.Txs...)
				nt := t
				nt.Accesses = append(append([]c11Access(nil), t.Accesses[:j]...), t.Accesses[j+1:]...)
				q.Txs[i] = nt
				out = append(out, mustJSON(q))
			}
			if t.Accesses[j].Yields > 0 {
				q := p
				q.Txs = append([]c11Tx(nil), p.Txs...)
				nt := t
				nt.Accesses = append([]c11Access(nil), t.Accesses...)
				nt.Accesses[j].Yields = 0
				q.Txs[i] = nt
				out = append(out, mustJSON(q))
			}
		}
		if t.Parallel {
			q := p
			q.Txs = append([]c11Tx(nil), p.Txs...)
			nt := t
			nt.Parallel = false
			q.Txs[i] = nt
			out = append(out, mustJSON(q))
		}
	}
	return out
}

// fakeCache is the synthetic cachable: the list of write ids applied to it.
type fakeCache struct {
	serial   int
	name     string
	size     int64
	applied  []int
	scrapped bool // harness knowledge: touched by a failure, must never be handed out again
	writerTx int  // transaction that write-accessed it and has not finished Commit yet (0 = none)
	inside   map[int]int
	// built by a reader whose snapshot was already behind committed storage (the
	// known snapshot-versioning finding of C09, see known_findings.txt)
	staleAtBirth bool
	// built by a reader while this write transaction (id) was in progress, i.e. held
	// the storage-writer token (0 = none): the second face of the same finding
	bornDuringWriter int
}

func (f *fakeCache) SizeInMemory() int64 { return f.size }

var errInjectedCb = errors.New("injected callback failure")
var errInjectedCreate = errors.New("injected constructor failure")

func (c11) Execute(env *Env) {
	var p c11Params
	if err := json.Unmarshal(env.Spec.Params, &p); err != nil {
		env.Infra("bad params: %v", err)
		return
	}
	storage := map[string][]int{} // committed write ids per name
	aborted := map[int]bool{}     // write ids of failed transactions
	inflight := map[int]int{}     // write id -> transaction
	widOwner := map[int]int{}     // write id -> transaction, kept for ever
	currentWriter := 0            // transaction holding the storage-writer token
	serial, nextWrite := 0, 0
	contended := false
	var writerToken sim.SimLock
	contains := func(xs []int, x int) bool {
		for _, y := range xs {
			if x == y {
				return true
			}
		}
		return false
	}
	// The manager evicts caches that are in use (checkAndPrune under a positive size
	// limit, Release): the existing tests pin that behaviour, and it is the root of a
	// known finding. Runs in which it can happen carry a signature suffix so that the
	// finding does not hide violations in runs where nothing can be evicted.
	suffix := ""
	if p.MaxSize > 0 || len(p.Releases) > 0 {
		suffix = ":eviction-possible"
	}
	// A transaction that write-accesses a name and accesses the same name again
	// (reading or writing) is outside what semadb itself does (one write access per
	// index and batch) and hits a second known finding (locks are tracked by name,
	// not by object); flagged for the same reason.
	for _, t := range p.Txs {
		writes, all := map[string]int{}, map[string]int{}
		for _, a := range t.Accesses {
			all[a.Name]++
			if !a.ReadOnly {
				writes[a.Name]++
			}
		}
		for name, c := range detRange(all) {
			if c > 1 && writes[name] > 0 && suffix == "" {
				suffix = ":tx-revisits-a-written-name"
			}
		}
	}
	env.RunSim(env.Spec.Sim, func() {
		m := cache.NewManager(p.MaxSize)
		// runTx executes one transaction program; id >= 1
		runTx := func(id int, t c11Tx) (failed bool) {
			for i := 0; i < t.StartDelay; i++ {
				sim.YieldAlways("c11:start-delay")
			}
			if t.Writer {
				writerToken.Lock("c11:storage-writer")
				currentWriter = id
			}
			snapshot := map[string][]int{}
			for k, v := range detRange(storage) {
				snapshot[k] = append([]int(nil), v...)
			}
			tx := m.NewTransaction()
			var touched []*fakeCache // write-accessed objects
			var myWrites []int
			anyErr := false
			access := func(a c11Access) {
				createFn := func() (cache.Cachable, error) {
					sim.Yield("c11:create")
					if a.FailCreate {
						return nil, errInjectedCreate
					}
					serial++
					base := snapshot[a.Name]
					if t.Writer {
						base = storage[a.Name] // the writer holds the storage token: current committed state
					}
					o := &fakeCache{serial: serial, name: a.Name, size: p.ObjSize, applied: append([]int(nil), base...), inside: map[int]int{}}
					for _, wid := range storage[a.Name] {
						if !contains(base, wid) {
							o.staleAtBirth = true
						}
					}
					if !t.Writer {
						o.bornDuringWriter = currentWriter
					}
					return o, nil
				}
				err := tx.With(a.Name, a.ReadOnly, createFn, func(c cache.Cachable) error {
					o := c.(*fakeCache)
					where := fmt.Sprintf("tx %d %s access to %q (object #%d)", id, map[bool]string{true: "read-only", false: "writing"}[a.ReadOnly], a.Name, o.serial)
					// I2
					if o.scrapped {
						env.Violate("scrap", "scrapped-cache-reused"+suffix, "%s: the object was touched by a failed transaction and must never be handed out again", where)
					}
					// I1
					if o.writerTx != 0 && o.writerTx != id {
						env.Violate("isolation", "access-during-foreign-write"+suffix, "%s: transaction %d write-accessed this object and has not committed yet", where, o.writerTx)
					}
					if !a.ReadOnly {
						for other, n := range detRange(o.inside) {
							if other != id && n > 0 {
								env.Violate("isolation", "write-while-foreign-reader-inside"+suffix, "%s: transaction %d is inside a callback on the same object", where, other)
							}
						}
					}
					if len(o.inside) > 0 || o.writerTx != 0 {
						contended = true
					}
					// I3
					for _, wid := range o.applied {
						if aborted[wid] {
							env.Violate("scrap", "aborted-write-visible"+suffix, "%s: the object contains write %d of a failed transaction", where, wid)
						}
						if owner, ok := inflight[wid]; ok && owner != id {
							env.Violate("isolation", "uncommitted-write-visible"+suffix, "%s: the object contains uncommitted write %d of transaction %d", where, wid, owner)
						}
					}
					for _, wid := range snapshot[a.Name] {
						if !contains(o.applied, wid) {
							sig := "stale-cache-handed-out"
							if o.staleAtBirth {
								sig += ":built-by-reader-with-older-snapshot"
							} else if o.bornDuringWriter != 0 && widOwner[wid] == o.bornDuringWriter {
								sig += ":built-by-reader-during-a-write-transaction"
							}
							env.Violate("stale", sig+suffix, "%s: the object lacks write %d which was committed before this transaction began (cache older than committed storage)", where, wid)
						}
					}
					if env.Violated() {
						return nil
					}
					o.inside[id]++
					if !a.ReadOnly {
						if o.writerTx == 0 {
							o.writerTx = id
							touched = append(touched, o)
						}
						nextWrite++
						o.applied = append(o.applied, nextWrite)
						inflight[nextWrite] = id
						widOwner[nextWrite] = id
						myWrites = append(myWrites, nextWrite)
					}
					for i := 0; i < a.Yields; i++ {
						sim.YieldAlways("c11:in-callback")
					}
					o.inside[id]--
					if o.inside[id] == 0 {
						delete(o.inside, id)
					}
					if a.FailCb {
						if !a.ReadOnly {
							o.scrapped = true // a failed writing callback leaves partial state behind
						}
						return errInjectedCb
					}
					return nil
				})
				if err != nil {
					anyErr = true
				}
			}
			if t.Parallel && len(t.Accesses) > 1 {
				done := make(chan struct{}, len(t.Accesses))
				for _, a := range t.Accesses {
					sim.Go("c11:pipeline", func() {
						access(a)
						done <- struct{}{}
					})
				}
				for range t.Accesses {
					sim.Recv("c11:join", (<-chan struct{})(done))
				}
			} else {
				for _, a := range t.Accesses {
					access(a)
					if anyErr {
						break // the first error aborts the batch
					}
				}
			}
			failed = anyErr || t.StorageFail
			// the storage transaction ends here (commit or rollback), then the cache transaction
			if !failed {
				for _, o := range touched {
					for _, wid := range myWrites {
						if contains(o.applied, wid) && !contains(storage[o.name], wid) {
							storage[o.name] = append(storage[o.name], wid)
						}
					}
				}
				for _, wid := range myWrites {
					delete(inflight, wid)
				}
			} else {
				for _, wid := range myWrites {
					aborted[wid] = true
					delete(inflight, wid)
				}
				for _, o := range touched {
					o.scrapped = true
				}
			}
			if t.Writer {
				currentWriter = 0
				writerToken.Unlock("c11:storage-writer")
			}
			tx.Commit(failed)
			for _, o := range touched {
				o.writerTx = 0
			}
			return failed
		}
		done := make(chan int, len(p.Txs)+len(p.Releases))
		for i, t := range p.Txs {
			sim.Go("c11:tx", func() {
				runTx(i+1, t)
				done <- i
			})
		}
		for _, rl := range p.Releases {
			sim.Go("c11:release", func() {
				for i := 0; i < rl.Delay; i++ {
					sim.YieldAlways("c11:release-delay")
				}
				m.Release(rl.Name)
				done <- -1
			})
		}
		for i := 0; i < len(p.Txs)+len(p.Releases); i++ {
			sim.Recv("c11:root", (<-chan int)(done))
		}
		if env.Violated() {
			return
		}
		// I4 / I5: progress afterwards — a fresh writing transaction on every name completes
		// and sees exactly the committed storage
		for k, name := range []string{"a", "b"} {
			if runTx(100+k, c11Tx{Writer: true, Accesses: []c11Access{{Name: name}}}) {
				env.Violate("progress", "fresh-writer-failed", "after all transactions ended a fresh writing transaction on %q failed", name)
				return
			}
		}
		for k, name := range []string{"a", "b"} {
			runTx(200+k, c11Tx{Accesses: []c11Access{{Name: name, ReadOnly: true}}})
		}
	})
	env.SetNonTrivial(contended)
}
