// Package harness drives the instrumented semadb code under the zzsimrt
// scheduler. One test binary serves every property; the runner (/verif/check)
// starts worker processes of it with SIM_* environment variables.
package harness

import (
	"encoding/json"
	"fmt"
	"hash/fnv"
	"math/rand/v2"
	"os"
	"path/filepath"
	"runtime/debug"
	"sort"
	"strings"
	"testing"
	"testing/synctest"
	"time"

	"github.com/rs/zerolog"
	sim "github.com/semafind/semadb/zzsimrt"
)

// Spec is one fully explicit simulated run: it is also the replay file format.
type Spec struct {
	Property string          `json:"property"`
	Tier     string          `json:"tier"`
	Seed     uint64          `json:"seed"`  // the run's PRNG value (derived from VERIF_SEED, property, index)
	Index    int             `json:"index"` // run index inside the batch
	Sim      sim.Config      `json:"sim"`
	Params   json.RawMessage `json:"params"` // property-specific workload + fault plan, generated up-front
}

// Violation of a property found by an oracle.
type Violation struct {
	Class string `json:"class"` // crash | deadlock | wrong-answer | atomicity | ...
	Sig   string `json:"sig"`   // stable signature used to match known findings and to guide minimisation
	Msg   string `json:"msg"`
}

// Result of one run.
type Result struct {
	Spec       Spec           `json:"-"`
	Property   string         `json:"property"`
	Index      int            `json:"index"`
	Seed       uint64         `json:"seed"`
	Violations []Violation    `json:"violations,omitempty"`
	Outcome    sim.Outcome    `json:"outcome"`
	NonTrivial bool           `json:"nontrivial"`
	Evals      int            `json:"evals,omitempty"`            // evaluations performed by this run when it is more than one (fault sub-runs)
	NonTrivN   int            `json:"nontrivial_count,omitempty"` // distinct non-trivial evaluations inside this run (default 1 when nontrivial)
	Stats      map[string]int `json:"stats,omitempty"`
	StateHash  string         `json:"state_hash,omitempty"`
	WallMs     float64        `json:"wall_ms"`
	Replay     string         `json:"replay,omitempty"`
	Infra      string         `json:"infra,omitempty"` // harness/infrastructure trouble: never a violation
}

// Env is what a property's Execute gets for one run.
type Env struct {
	T     *testing.T
	Dir   string // private scratch directory of the run (tmpfs)
	Spec  Spec
	res   *Result
	notes []string
}

func (e *Env) Violate(class, sig, format string, a ...any) {
	msg := fmt.Sprintf(format, a...)
	if len(msg) > 3000 {
		msg = msg[:3000] + "…"
	}
	e.res.Violations = append(e.res.Violations, Violation{Class: class, Sig: sig, Msg: msg})
}

func (e *Env) Violated() bool { return len(e.res.Violations) > 0 }

func (e *Env) Stat(name string, n int) {
	if e.res.Stats == nil {
		e.res.Stats = map[string]int{}
	}
	e.res.Stats[name] += n
}

func (e *Env) SetNonTrivial(b bool) { e.res.NonTrivial = b }
func (e *Env) SetEvals(evals, nontrivial int) {
	e.res.Evals, e.res.NonTrivN = evals, nontrivial
}
func (e *Env) SetStateHash(h string) { e.res.StateHash = h }
func (e *Env) Infra(format string, a ...any) {
	if e.res.Infra == "" {
		e.res.Infra = fmt.Sprintf(format, a...)
	}
}

// Property is one decidable property.
type Property interface {
	ID() string
	// Generate draws the simulator configuration and the explicit workload/fault plan of a run.
	Generate(r *rand.Rand, tier string) (sim.Config, any)
	// Execute runs the world under the scheduler. It is called inside a synctest
	// bubble and must call sim.Run itself (through RunSim) exactly once per simulated process life.
	Execute(env *Env)
	// Shrink proposes strictly smaller parameter sets for minimisation.
	Shrink(params json.RawMessage) []json.RawMessage
	// Sample renders the parameters compactly for evidence files.
	Sample(params json.RawMessage) any
	// Rule states how runs are generated and what makes one non-trivial / distinct (evidence).
	Rule() string
}

var registry = map[string]Property{}

func Register(p Property) { registry[p.ID()] = p }

func mix(seed uint64, prop string, idx int) uint64 {
	h := fnv.New64a()
	fmt.Fprintf(h, "%d|%s|%d", seed, prop, idx)
	v := h.Sum64()
	if v == 0 {
		v = 1
	}
	return v
}

// GenSpec builds the spec of run idx of a batch.
func GenSpec(p Property, verifSeed uint64, tier string, idx int) Spec {
	seed := mix(verifSeed, p.ID(), idx)
	r := rand.New(rand.NewPCG(seed, 0x9e3779b97f4a7c15))
	cfg, params := p.Generate(r, tier)
	cfg.Seed = seed
	raw, err := json.Marshal(params)
	if err != nil {
		panic(err)
	}
	return Spec{Property: p.ID(), Tier: tier, Seed: seed, Index: idx, Sim: cfg, Params: raw}
}

// RandomSimConfig is the swarm of scheduler configurations shared by the properties.
func RandomSimConfig(r *rand.Rand) sim.Config {
	c := sim.Config{Workers: 1 + r.IntN(4), ShuffleMaps: r.IntN(4) != 0, MaxSteps: 600000, IdleLimitSec: 300}
	switch r.IntN(4) {
	case 0:
		c.Strategy = "random"
	case 1:
		c.Strategy = "sticky"
		c.StickyP = []float64{0.5, 0.9, 0.98, 0.997}[r.IntN(4)]
	case 2:
		c.Strategy = "pct"
		c.PCTDepth = 1 + r.IntN(3)
		c.PCTHorizon = []int{200, 600, 2000, 6000}[r.IntN(4)]
	default:
		c.Strategy = "random"
	}
	c.YieldDensity = []float64{1, 1, 0.3, 0.05}[r.IntN(4)]
	return c
}

var runCounter int

func tmpRoot() string {
	if d := os.Getenv("SIM_TMP"); d != "" {
		return d
	}
	if st, err := os.Stat("/dev/shm"); err == nil && st.IsDir() {
		return "/dev/shm"
	}
	return os.TempDir()
}

// RunSpec executes one spec in its own bubble and directory.
func RunSpec(t *testing.T, spec Spec) (res Result) {
	p := registry[spec.Property]
	res = Result{Spec: spec, Property: spec.Property, Index: spec.Index, Seed: spec.Seed}
	if p == nil {
		res.Infra = "unknown property " + spec.Property
		return
	}
	dir, err := os.MkdirTemp(tmpRoot(), "semasim-")
	if err != nil {
		res.Infra = "mkdtemp: " + err.Error()
		return
	}
	defer os.RemoveAll(dir)
	t0 := time.Now()
	env := &Env{T: t, Dir: dir, Spec: spec, res: &res}
	func() {
		defer func() {
			if r := recover(); r != nil {
				msg := fmt.Sprint(r)
				// synctest panics when the bubble ends with goroutines still parked
				// (abandoned tasks of an aborted or killed simulated process): expected.
				if strings.Contains(msg, "deadlock: main bubble goroutine has exited") || strings.Contains(msg, "blocked goroutines remain") {
					return
				}
				res.Infra = "harness panic: " + msg + "\n" + string(debug.Stack())
			}
		}()
		synctest.Test(t, func(t *testing.T) {
			env.T = t
			p.Execute(env)
		})
	}()
	res.WallMs = float64(time.Since(t0).Microseconds()) / 1000
	return
}

// RunSim runs root under the scheduler and folds crashes / deadlocks / budget
// exhaustion of the simulated system into the result.
func (e *Env) RunSim(cfg sim.Config, root func()) sim.Outcome {
	resetProbes()
	out := sim.Run(cfg, root)
	// accumulate (a property may run several simulated process lives)
	o := &e.res.Outcome
	o.Steps += out.Steps
	o.Switches += out.Switches
	o.TimeJumps += out.TimeJumps
	o.SimTime += out.SimTime
	o.TraceHash = fmt.Sprintf("%016x", fnv64(o.TraceHash+out.TraceHash))
	o.Tail = out.Tail
	if o.Counters == nil {
		o.Counters = map[string]int{}
	}
	for k, v := range detRange(out.Counters) {
		o.Counters[k] += v
	}
	for _, c := range out.Crashes {
		o.Crashes = append(o.Crashes, c)
		e.Violate("crash", "crash:"+crashSig(c), "panic in task %s at %s: %s\n%s", c.Task, c.Site, c.Value, c.Stack)
	}
	if out.Deadlock != "" {
		o.Deadlock = out.Deadlock
		e.Violate("deadlock", "deadlock:"+deadlockSig(out.Deadlock), "%s", out.Deadlock)
	}
	if out.Budget {
		o.Budget = true
		e.Infra("step budget of %d exhausted (tail: %v)", cfg.MaxSteps, out.Tail[max(0, len(out.Tail)-8):])
	}
	return out
}

func fnv64(s string) uint64 {
	h := fnv.New64a()
	h.Write([]byte(s))
	return h.Sum64()
}

// crashSig: panic value (digits removed) + innermost semadb frame.
func crashSig(c sim.Crash) string {
	val := stripDigits(c.Value)
	if len(val) > 80 {
		val = val[:80]
	}
	frame, outer := "", ""
	for _, ln := range strings.Split(c.Stack, "\n") {
		ln = strings.TrimSpace(ln)
		if strings.HasPrefix(ln, "github.com/semafind/semadb/") && !strings.Contains(ln, "zzsimrt") {
			f := ln
			if i := strings.LastIndex(f, "("); i > 0 {
				f = f[:i]
			}
			f = strings.TrimPrefix(f, "github.com/semafind/semadb/")
			if j := strings.Index(f, ".func"); j > 0 {
				f = f[:j] // closures: name of the enclosing function
			}
			if frame == "" {
				frame = f
			}
			outer = f
		}
	}
	// innermost and outermost semadb frame of the crashing goroutine: tells a crash
	// in a search task from a crash in a write pipeline goroutine
	return val + "@" + frame + " via " + outer
}

func stripDigits(s string) string {
	var b strings.Builder
	for _, r := range s {
		if r >= '0' && r <= '9' {
			continue
		}
		b.WriteRune(r)
	}
	return b.String()
}

func deadlockSig(d string) string {
	i := strings.Index(d, "[")
	j := strings.LastIndex(d, "]")
	if i < 0 || j < i {
		return "?"
	}
	// the set of lock sites waited on (tasks blocked in channel operations are
	// consequences, and their number varies with the workload)
	set := map[string]bool{}
	for _, w := range strings.Fields(d[i+1 : j]) {
		if k := strings.Index(w, "@lockwait:"); k >= 0 {
			set[w[k+len("@lockwait:"):]] = true
		}
	}
	var sites []string
	for s := range detRange(set) {
		sites = append(sites, s)
	}
	sort.Strings(sites)
	if len(sites) == 0 {
		return "no-lock-waiters"
	}
	return strings.Join(sites, ",")
}

// ---------------------------------------------------------------------------
// worker entry point

type replayFile struct {
	Spec       Spec        `json:"spec"`
	Violations []Violation `json:"violations"`
	TraceHash  string      `json:"trace_hash"`
	Steps      int         `json:"steps"`
	Tail       []string    `json:"schedule_tail"`
	Minimised  bool        `json:"minimised"`
	Note       string      `json:"note,omitempty"`
}

func writeReplay(path string, res Result, minimised bool) error {
	rf := replayFile{Spec: res.Spec, Violations: res.Violations, TraceHash: res.Outcome.TraceHash, Steps: res.Outcome.Steps, Tail: res.Outcome.Tail, Minimised: minimised}
	b, _ := json.MarshalIndent(rf, "", " ")
	os.MkdirAll(filepath.Dir(path), 0755)
	return os.WriteFile(path, b, 0644)
}

func readReplay(path string) (replayFile, error) {
	var rf replayFile
	b, err := os.ReadFile(path)
	if err != nil {
		return rf, err
	}
	err = json.Unmarshal(b, &rf)
	return rf, err
}

func emit(v any) {
	b, _ := json.Marshal(v)
	os.Stdout.Write(append(b, '\n'))
}

func sameViolation(a, b []Violation) bool {
	if len(a) == 0 || len(b) == 0 {
		return false
	}
	return a[0].Class == b[0].Class && a[0].Sig == b[0].Sig
}

// WorkerMain is called from TestSim.
func WorkerMain(t *testing.T) {
	zerolog.SetGlobalLevel(zerolog.Disabled)
	installProbes()
	mode := os.Getenv("SIM_MODE")
	switch mode {
	case "", "batch":
		workerBatch(t)
	case "replay":
		workerReplay(t)
	case "minimise":
		workerMinimise(t)
	case "spec":
		p := registry[os.Getenv("SIM_PROP")]
		if p == nil {
			t.Fatalf("unknown property")
		}
		tier := os.Getenv("SIM_TIER")
		if tier == "" {
			tier = "quick"
		}
		spec := GenSpec(p, envU64("VERIF_SEED", 1), tier, envInt("SIM_FROM", 0))
		writeReplay(os.Getenv("SIM_OUT"), Result{Spec: spec, Violations: []Violation{{Class: "hard-crash", Sig: "hard-crash", Msg: "the worker process died while executing this spec"}}}, false)
	default:
		t.Fatalf("unknown SIM_MODE %q", mode)
	}
}

func envInt(name string, def int) int {
	if s := os.Getenv(name); s != "" {
		var v int
		if _, err := fmt.Sscan(s, &v); err == nil {
			return v
		}
	}
	return def
}

func envU64(name string, def uint64) uint64 {
	if s := os.Getenv(name); s != "" {
		var v uint64
		if _, err := fmt.Sscan(s, &v); err == nil {
			return v
		}
	}
	return def
}

func workerBatch(t *testing.T) {
	p := registry[os.Getenv("SIM_PROP")]
	if p == nil {
		t.Fatalf("unknown property %q", os.Getenv("SIM_PROP"))
	}
	seed := envU64("VERIF_SEED", 1)
	tier := os.Getenv("SIM_TIER")
	if tier == "" {
		tier = "quick"
	}
	from, step, count := envInt("SIM_FROM", 0), envInt("SIM_STEP", 1), envInt("SIM_COUNT", 10)
	deadline := time.Now().Add(time.Duration(envInt("SIM_BUDGET_S", 3600)) * time.Second)
	replayDir := os.Getenv("SIM_REPLAY_DIR")
	samples := envInt("SIM_SAMPLES", 0)
	for k := 0; k < count; k++ {
		if time.Now().After(deadline) {
			break
		}
		idx := from + k*step
		spec := GenSpec(p, seed, tier, idx)
		// announce before running so that the runner can attribute a hard crash of this process
		emit(map[string]any{"start": idx, "seed": spec.Seed})
		if f := os.Getenv("SIM_TRACE"); f != "" {
			sim.TraceAll = true
			sim.FullTrace = nil
		}
		res := RunSpec(t, spec)
		if f := os.Getenv("SIM_TRACE"); f != "" {
			os.WriteFile(fmt.Sprintf("%s.%d", f, idx), []byte(strings.Join(sim.FullTrace, "\n")), 0644)
		}
		if len(res.Violations) > 0 && replayDir != "" {
			path := filepath.Join(replayDir, fmt.Sprintf("tmp-%s-%d.json", spec.Property, spec.Seed))
			if err := writeReplay(path, res, false); err == nil {
				res.Replay = path
			}
		}
		out := map[string]any{"result": res}
		if k < samples {
			out["sample"] = map[string]any{"seed": spec.Seed, "sim": spec.Sim, "params": p.Sample(spec.Params), "steps": res.Outcome.Steps, "trace_hash": res.Outcome.TraceHash}
		}
		emit(out)
	}
	emit(map[string]any{"done": true, "rule": p.Rule()})
}

func workerReplay(t *testing.T) {
	rf, err := readReplay(os.Getenv("SIM_REPLAY"))
	if err != nil {
		emit(map[string]any{"infra": "cannot read replay: " + err.Error()})
		return
	}
	if f := os.Getenv("SIM_TRACE"); f != "" { // debugging aid: dump the complete event trace of the replayed run
		sim.TraceAll = true
		sim.FullTrace = nil
	}
	res := RunSpec(t, rf.Spec)
	if f := os.Getenv("SIM_TRACE"); f != "" {
		os.WriteFile(f, []byte(strings.Join(sim.FullTrace, "\n")), 0644)
	}
	same := sameViolation(res.Violations, rf.Violations)
	exact := same && res.Outcome.TraceHash == rf.TraceHash
	emit(map[string]any{"result": res, "reproduced": same, "exact": exact, "expected_trace": rf.TraceHash})
}
