package harness

import (
	"bytes"
	"fmt"
	"io"
	"net/http"
	"net/http/httptest"
	"os"
	"path/filepath"
	"sort"

	"github.com/google/uuid"
	"github.com/semafind/semadb/cluster"
	"github.com/semafind/semadb/httpapi"
	"github.com/semafind/semadb/models"
	sim "github.com/semafind/semadb/zzsimrt"
)

// ClusterWorld is world C of DESIGN.md: 1-3 real ClusterNodes (each with its
// node database and shard manager on real files) joined by SimNet.
type cnode struct {
	addr    string
	tag     string
	dir     string
	node    *cluster.ClusterNode
	handler http.Handler
	gen     int
	alive   bool
}

type callResult struct {
	killed bool
}

type ClusterWorld struct {
	Env       *Env
	SW        *StoreWorld
	Net       *SimNet
	Nodes     map[string]*cnode
	Template  cluster.ClusterNodeConfig
	Plans     map[string]models.UserPlan
	pending   map[string][]chan callResult
	callSeq   int
	KilledLog []string
}

func NodeAddr(i int) string { return fmt.Sprintf("n%d:1", i) }

func NewClusterWorld(env *Env, sw *StoreWorld, net *SimNet, tmpl cluster.ClusterNodeConfig) *ClusterWorld {
	w := &ClusterWorld{Env: env, SW: sw, Net: net, Nodes: map[string]*cnode{}, Template: tmpl, pending: map[string][]chan callResult{}}
	net.OnKill = func(addr string) { w.noteKilled(addr) }
	return w
}

func (w *ClusterWorld) noteKilled(addr string) {
	n := w.Nodes[addr]
	if n == nil || !n.alive {
		return
	}
	n.alive = false
	w.KilledLog = append(w.KilledLog, addr)
	for _, ch := range w.pending[addr] {
		select {
		case ch <- callResult{killed: true}:
		default:
		}
	}
	w.pending[addr] = nil
}

// StartNode starts (or restarts, on a copy of its directory) the node at index i with the given server list.
func (w *ClusterWorld) StartNode(i int, servers []string) error {
	addr := NodeAddr(i)
	prev := w.Nodes[addr]
	gen := 0
	dir := filepath.Join(w.Env.Dir, fmt.Sprintf("node%d-g0", i))
	if prev != nil {
		gen = prev.gen + 1
		dir = filepath.Join(w.Env.Dir, fmt.Sprintf("node%d-g%d", i, gen))
		// the previous incarnation is dead (its file locks are still held by abandoned handles): restart on a copy
		if err := copyTree(prev.dir, dir); err != nil {
			return err
		}
	}
	os.MkdirAll(dir, 0755)
	cfg := w.Template
	cfg.RootDir = dir
	cfg.RpcHost = fmt.Sprintf("n%d", i)
	cfg.RpcPort = 1
	cfg.Servers = servers
	cfg.ShardManager.RootDir = dir
	tag := fmt.Sprintf("%s#%d", addr, gen)
	var node *cluster.ClusterNode
	var err error
	w.inTask(tag, func() { node, err = cluster.NewNode(cfg) })
	if err != nil {
		return err
	}
	n := &cnode{addr: addr, tag: tag, dir: dir, node: node, gen: gen, alive: true}
	n.handler = httpapi.SetupRouterForSim(node, httpapi.HttpApiConfig{UserPlans: w.Plans})
	w.Nodes[addr] = n
	w.Net.Register(addr, tag, node)
	return nil
}

// inTask runs f in a fresh task tagged with the node and waits for it (or for the node's death).
func (w *ClusterWorld) inTask(tag string, f func()) (killed bool) {
	done := make(chan callResult, 2)
	sim.Go("cluster:call", func() {
		sim.SetNode(tag)
		f()
		done <- callResult{}
	})
	r := sim.Recv("cluster:wait-call", (<-chan callResult)(done))
	return r.killed
}

// Call runs f against the node at addr inside a task of that process. It
// reports whether the node died before f returned.
func (w *ClusterWorld) Call(addr string, f func(n *cluster.ClusterNode)) (killed bool) {
	n := w.Nodes[addr]
	if n == nil || !n.alive {
		return true
	}
	done := make(chan callResult, 2)
	w.pending[addr] = append(w.pending[addr], done)
	sim.Go("cluster:call", func() {
		sim.SetNode(n.tag)
		f(n.node)
		done <- callResult{}
	})
	r := sim.Recv("cluster:wait-call", (<-chan callResult)(done))
	// forget the channel
	var keep []chan callResult
	for _, ch := range w.pending[addr] {
		if ch != done {
			keep = append(keep, ch)
		}
	}
	w.pending[addr] = keep
	return r.killed
}

// Go starts f against the node concurrently; the returned channel yields once.
func (w *ClusterWorld) Go(addr string, f func(n *cluster.ClusterNode)) <-chan callResult {
	n := w.Nodes[addr]
	done := make(chan callResult, 2)
	if n == nil || !n.alive {
		done <- callResult{killed: true}
		return done
	}
	w.pending[addr] = append(w.pending[addr], done)
	sim.Go("cluster:call", func() {
		sim.SetNode(n.tag)
		f(n.node)
		done <- callResult{}
	})
	return done
}

// Kill: process death of a node decided by the harness (not inside a handler).
func (w *ClusterWorld) Kill(addr string) {
	n := w.Nodes[addr]
	if n == nil || !n.alive {
		return
	}
	w.Net.Down(addr)
	w.noteKilled(addr)
	sim.KillNode(n.tag)
}

// HTTP performs a request through the node's real handler chain.
func (w *ClusterWorld) HTTP(addr, method, path, user, plan, contentType string, body []byte) (status int, respBody []byte, killed bool) {
	n := w.Nodes[addr]
	killed = w.Call(addr, func(_ *cluster.ClusterNode) {
		req := httptest.NewRequest(method, path, bytes.NewReader(body))
		if user != "" {
			req.Header.Set("X-User-Id", user)
		}
		if plan != "" {
			req.Header.Set("X-Plan-Id", plan)
		}
		if contentType != "" {
			req.Header.Set("Content-Type", contentType)
		}
		rec := httptest.NewRecorder()
		n.handler.ServeHTTP(rec, req)
		res := rec.Result()
		status = res.StatusCode
		respBody, _ = io.ReadAll(res.Body)
	})
	return
}

func copyTree(src, dst string) error {
	return filepath.Walk(src, func(p string, info os.FileInfo, err error) error {
		if err != nil {
			return err
		}
		rel, _ := filepath.Rel(src, p)
		target := filepath.Join(dst, rel)
		if info.IsDir() {
			return os.MkdirAll(target, 0755)
		}
		return copyFile(p, target)
	})
}

// ---- observation of node state (raw files) ----------------------------------

// NodeRecords returns the collection records of a node database file.
func NodeRecords(dir string) (map[string][]byte, error) {
	p := filepath.Join(dir, "nodedb.bbolt")
	if _, err := os.Stat(p); err != nil {
		return map[string][]byte{}, nil
	}
	d, err := DumpFile(p)
	if err != nil {
		return nil, err
	}
	out := map[string][]byte{}
	for k, v := range detRange(d[cluster.USERCOLSBUCKETKEY]) {
		out[k] = v
	}
	return out, nil
}

// ShardFiles lists user/collection/shard -> path of the shard files below a node directory.
func ShardFiles(dir string) map[string]string {
	out := map[string]string{}
	base := filepath.Join(dir, cluster.USERCOLSDIR)
	filepath.Walk(base, func(p string, info os.FileInfo, err error) error {
		if err == nil && !info.IsDir() && filepath.Base(p) == "sharddb.bbolt" {
			rel, _ := filepath.Rel(base, filepath.Dir(p))
			out[rel] = p
		}
		return nil
	})
	return out
}

// ShardPointIDs reads the uuids stored in a shard file.
func ShardPointIDs(path string) ([]uuid.UUID, error) {
	d, err := DumpFile(path)
	if err != nil {
		return nil, err
	}
	var out []uuid.UUID
	for k := range detRange(d["points"]) {
		if len(k) == 18 && k[0] == 'p' && k[17] == 'i' {
			var u uuid.UUID
			copy(u[:], k[1:17])
			out = append(out, u)
		}
	}
	sort.Slice(out, func(i, j int) bool { return bytes.Compare(out[i][:], out[j][:]) < 0 })
	return out, nil
}
