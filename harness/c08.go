package harness

import (
	"encoding/json"
	"fmt"
	"math/rand/v2"

	"github.com/semafind/semadb/models"
	sim "github.com/semafind/semadb/zzsimrt"
)

// C08 — committed data is durable and answers do not depend on cache state or backend.
type c08Params struct {
	Schema       models.IndexSchema     `json:"schema"`
	MaxPointSize int                    `json:"max_point_size"`
	IDPool       int                    `json:"id_pool"`
	Ops          []Op                   `json:"ops"`
	Panel        []models.SearchRequest `json:"panel"`
	TinyCache    int64                  `json:"tiny_cache"`
	Configs      []string               `json:"configs"`
}

type c08 struct{}

func init() { Register(c08{}) }

func (c08) ID() string { return "C08" }

func (c08) Rule() string {
	return "each run = one seeded history of successful write batches executed independently under several configurations of the same real shard code: unlimited shared cache, a tiny cache limit that forces LRU eviction between operations, cache disabled, reopen (fresh cache manager) after every batch, explicit cache release after every batch, the in-memory backend, and the in-memory backend with the cache disabled; each under its own seeded schedule. After every batch each file-backed configuration is audited against the model and asked a seeded query panel (all index kinds incl. quantised vectors) on the live instance and on a cold instance opened on a copy of its file: the two must agree (durability, warm == cold). Across configurations the answers to exact-semantics queries (filters, _id, flat vectors, text) must agree with configuration 'unlimited'; graph queries are only compared warm vs cold on the same file because independently built graphs legitimately differ. Non-trivial: >= 3 model states, >= 3 configurations, and the tiny-cache configuration actually pruned. Distinct: (trace hash, final state)."
}

func (c08) Generate(r *rand.Rand, tier string) (sim.Config, any) {
	cfg := RandomSimConfig(r)
	o := AllIndexKinds
	o.Quantizers = true
	p := c08Params{Schema: GenSchema(r, o), MaxPointSize: 3000, IDPool: 12 + r.IntN(20), TinyCache: pick(r, []int64{150, 600, 2500})}
	for len(p.Schema) == 0 {
		p.Schema = GenSchema(r, o)
	}
	nops := 4 + r.IntN(7)
	if tier == "thorough" {
		nops = 8 + r.IntN(14)
	}
	withVecStyle(pickVecStyle(r), func() {
		p.Ops = GenHistory(r, p.Schema, p.MaxPointSize, HistoryOpts{NOps: nops, IDPool: p.IDPool, MaxBatch: 9, PIndexed: 0.8})
		p.Panel = GenPanel(r, p.Schema, p.IDPool, 10)
	})
	all := []string{"tiny", "disabled", "reopen", "release", "mem", "mem-nocache"}
	r.Shuffle(len(all), func(i, j int) { all[i], all[j] = all[j], all[i] })
	p.Configs = append([]string{"unlimited"}, all[:2+r.IntN(3)]...)
	return cfg, p
}

func (c08) Sample(raw json.RawMessage) any {
	var p c08Params
	json.Unmarshal(raw, &p)
	kinds := []string{}
	for _, o := range p.Ops {
		kinds = append(kinds, fmt.Sprintf("%s/%d", o.Kind, len(o.Points)+len(o.IDs)))
	}
	return map[string]any{"schema": p.Schema, "ops": kinds, "configs": p.Configs, "tiny_cache": p.TinyCache, "first_query": compactQuery(p.Panel[0])}
}

func (c08) Shrink(raw json.RawMessage) []json.RawMessage {
	var p c08Params
	json.Unmarshal(raw, &p)
	var out []json.RawMessage
	if len(p.Configs) > 2 {
		for i := 1; i < len(p.Configs); i++ {
			q := p
			q.Configs = []string{"unlimited", p.Configs[i]}
			out = append(out, mustJSON(q))
		}
	}
	for _, ops := range shrinkOps(p.Ops) {
		q := p
		q.Ops = ops
		out = append(out, mustJSON(q))
	}
	if len(p.Panel) > 1 {
		for i := range p.Panel {
			q := p
			q.Panel = []models.SearchRequest{p.Panel[i]}
			out = append(out, mustJSON(q))
		}
	}
	return out
}

func isGraphQuery(q models.Query, schema models.IndexSchema) bool {
	switch q.Property {
	case "_and":
		for _, s := range q.And {
			if isGraphQuery(s, schema) {
				return true
			}
		}
		return false
	case "_or":
		for _, s := range q.Or {
			if isGraphQuery(s, schema) {
				return true
			}
		}
		return false
	case "_id":
		return false
	}
	sv := schema[q.Property]
	switch sv.Type {
	case models.IndexTypeVectorVamana:
		return true
	case models.IndexTypeVectorFlat:
		// a product quantiser is trained by k-means from a random start: independently
		// trained instances legitimately hold different centroids (compared warm vs cold
		// on the same file only, like graphs)
		if qz := sv.VectorFlat.Quantizer; qz != nil && qz.Type == models.QuantizerProduct {
			return true
		}
		// a learned binary threshold is trained on whatever points exist at the trigger, which
		// is the same for every configuration; its filter may contain a graph query though
		if q.VectorFlat.Filter != nil {
			return isGraphQuery(*q.VectorFlat.Filter, schema)
		}
	case models.IndexTypeText:
		if q.Text.Filter != nil {
			return isGraphQuery(*q.Text.Filter, schema)
		}
	}
	return false
}

func (c08) Execute(env *Env) {
	var p c08Params
	if err := json.Unmarshal(env.Spec.Params, &p); err != nil {
		env.Infra("bad params: %v", err)
		return
	}
	col := models.Collection{UserId: "u", Id: "c", UserPlan: models.UserPlan{MaxPointSize: p.MaxPointSize}, IndexSchema: p.Schema}
	probe := allIDs(p.IDPool)
	var ref [][]Answer // answers of configuration "unlimited" after each op
	states := map[string]bool{}
	pruned := false
	var finalModel *RefShard
	for ci, cfgName := range p.Configs {
		sw := NewStoreWorld()
		sw.Install()
		subEnv := *env
		subEnv.Dir = fmt.Sprintf("%s/cfg%d", env.Dir, ci)
		model := NewRefShard(p.MaxPointSize)
		backend, cacheSize := "bbolt", int64(-1)
		switch cfgName {
		case "tiny":
			cacheSize = p.TinyCache
		case "disabled":
			cacheSize = 0
		case "mem":
			backend = "mem"
		case "mem-nocache": // every read goes to the in-memory buckets
			backend, cacheSize = "mem", 0
		}
		simCfg := env.Spec.Sim
		simCfg.Seed += uint64(ci) * 1000003
		var answers [][]Answer
		out := env.RunSim(simCfg, func() {
			w := NewShardWorld(&subEnv, sw, col, backend, cacheSize)
			if err := w.Open(); err != nil {
				env.Infra("open: %v", err)
				return
			}
			defer w.Close()
			for i, op := range p.Ops {
				if !applyOp(env, w, model, i, op) {
					return
				}
				where := fmt.Sprintf("configuration %q after op %d (%s)", cfgName, i, op.Kind)
				switch cfgName {
				case "reopen":
					if err := w.Reopen(); err != nil {
						env.Violate("spurious-error", "reopen-error", "%s: reopen failed: %v", where, err)
						return
					}
				case "release":
					w.EvictCaches()
				}
				if !w.AuditDocs(model, probe, where) {
					return
				}
				states[model.StateKey()] = true
				live := w.AskPanel(p.Panel)
				for qi, a := range live {
					if a.Err != "" {
						env.Violate("spurious-error", "search-error", "%s: valid query %d %s failed: %s", where, qi, jsonStr(p.Panel[qi].Query), a.Err)
						return
					}
				}
				if backend == "bbolt" {
					cold, err := w.ColdCopy(-1)
					if err != nil {
						env.Violate("durability", "cold-open", "%s: a copy of the file cannot be opened: %v", where, err)
						return
					}
					if !cold.AuditDocs(model, probe, where+" [cold copy]") {
						cold.Discard()
						return
					}
					ca := cold.AskPanel(p.Panel)
					cold.Discard()
					if qi, d := ComparePanels(p.Panel, live, ca); qi >= 0 {
						env.Violate("cache-dependence", "live-vs-cold:"+cfgName, "%s: live instance and cold copy of the same file disagree on query %d %s: %s", where, qi, jsonStr(p.Panel[qi].Query), d)
						return
					}
				}
				answers = append(answers, live)
			}
		})
		sw.Uninstall()
		if env.Violated() || env.res.Infra != "" {
			return
		}
		if cfgName == "tiny" && out.Counters["probe:cache-pruned"] > 0 {
			pruned = true
		}
		if ci == 0 {
			ref = answers
			finalModel = model
			continue
		}
		for i := range answers {
			for qi := range p.Panel {
				if isGraphQuery(p.Panel[qi].Query, p.Schema) {
					continue
				}
				if d := CompareAnswers(ref[i][qi], answers[i][qi]); d != "" {
					env.Violate("cache-dependence", "config-vs-unlimited:"+cfgName, "after op %d (%s): configuration %q answers query %d %s differently from the unlimited-cache configuration: %s", i, p.Ops[i].Kind, cfgName, qi, jsonStr(p.Panel[qi].Query), d)
					return
				}
			}
		}
	}
	env.Stat("model-states", len(states))
	env.Stat("configs", len(p.Configs))
	if pruned {
		env.Stat("tiny-cache-pruned", 1)
	}
	hasTiny := false
	for _, c := range p.Configs {
		if c == "tiny" {
			hasTiny = true
		}
	}
	env.SetNonTrivial(len(states) >= 3 && len(p.Configs) >= 3 && (pruned || !hasTiny))
	if finalModel != nil {
		env.SetStateHash(finalModel.StateKey())
	}
}
