package harness

import (
	"fmt"
	"sort"

	"github.com/google/uuid"
)

// RefShard is the plain reference model of one shard: a map from point id to
// decoded document, with the batch semantics of property C01. It is written
// from the property statements, not from the implementation.
type RefShard struct {
	Docs         map[uuid.UUID]Doc
	MaxPointSize int
}

func NewRefShard(maxPointSize int) *RefShard {
	return &RefShard{Docs: map[uuid.UUID]Doc{}, MaxPointSize: maxPointSize}
}

func (m *RefShard) Clone() *RefShard {
	c := NewRefShard(m.MaxPointSize)
	for k, v := range detRange(m.Docs) {
		c.Docs[k] = cloneDoc(v)
	}
	return c
}

func cloneAny(v any) any {
	switch x := v.(type) {
	case map[string]any:
		return cloneDoc(x)
	case []any:
		y := make([]any, len(x))
		for i := range x {
			y[i] = cloneAny(x[i])
		}
		return y
	}
	return v
}

func cloneDoc(d Doc) Doc {
	c := make(Doc, len(d))
	for k, v := range detRange(d) {
		c[k] = cloneAny(v)
	}
	return c
}

// PointSpec is one element of an insert or update batch.
type PointSpec struct {
	ID  int     `json:"id"`
	Doc DocSpec `json:"doc"`
}

// Insert: all-or-nothing; rejected when an id is repeated in the batch or already stored.
func (m *RefShard) Insert(batch []PointSpec) (rejected bool) {
	seen := map[int]bool{}
	for _, p := range batch {
		if seen[p.ID] {
			return true
		}
		seen[p.ID] = true
		if _, ok := m.Docs[PID(p.ID)]; ok {
			return true
		}
	}
	for _, p := range batch {
		m.Docs[PID(p.ID)] = p.Doc.Norm()
	}
	return false
}

// Update: shallow merge, "_delete" removes a field, unknown ids are skipped; an
// oversized merged document rejects the whole batch. Returns the ids updated.
func (m *RefShard) Update(batch []PointSpec) (updated []uuid.UUID, rejected bool) {
	next := map[uuid.UUID]Doc{}
	for _, p := range batch {
		id := PID(p.ID)
		cur, ok := next[id]
		if !ok {
			stored, exists := m.Docs[id]
			if !exists {
				continue
			}
			cur = cloneDoc(stored)
		}
		for k, v := range detRange(p.Doc.Norm()) {
			if s, isStr := v.(string); isStr && s == "_delete" {
				delete(cur, k)
			} else {
				cur[k] = v
			}
		}
		if EncodedSize(cur) > m.MaxPointSize {
			return nil, true
		}
		if _, dup := next[id]; !dup {
			updated = append(updated, id)
		}
		next[id] = cur
	}
	for id, d := range detRange(next) {
		m.Docs[id] = d
	}
	return updated, false
}

// Delete removes known ids and skips unknown ones. Returns the ids deleted.
func (m *RefShard) Delete(ids []int) (deleted []uuid.UUID) {
	seen := map[int]bool{}
	for _, i := range ids {
		if seen[i] {
			continue
		}
		seen[i] = true
		id := PID(i)
		if _, ok := m.Docs[id]; ok {
			delete(m.Docs, id)
			deleted = append(deleted, id)
		}
	}
	return
}

func (m *RefShard) IDs() []uuid.UUID {
	out := make([]uuid.UUID, 0, len(m.Docs))
	for k := range detRange(m.Docs) {
		out = append(out, k)
	}
	sort.Slice(out, func(i, j int) bool { return PIDIndex(out[i]) < PIDIndex(out[j]) })
	return out
}

// StateKey is a cheap fingerprint of the model state (distinct-state counting in evidence).
func (m *RefShard) StateKey() string {
	s := ""
	for _, id := range m.IDs() {
		s += fmt.Sprintf("%d:%d;", PIDIndex(id), EncodedSize(m.Docs[id]))
	}
	return s
}
