package harness

import (
	"fmt"
	"strings"
	"math"
	"math/rand/v2"

	"github.com/semafind/semadb/models"
	sim "github.com/semafind/semadb/zzsimrt"
	"github.com/vmihailenco/msgpack/v5"
)

func msgpackMarshal(v any) ([]byte, error) { return msgpack.Marshal(v) }
func msgpackUnmarshal(b []byte, v any) error { return msgpack.Unmarshal(b, v) }

func f32p(f float32) *float32 { return &f }

// ---- schemas ---------------------------------------------------------------

// SchemaOpts controls which index kinds GenSchema may use.
type SchemaOpts struct {
	Strings, Ints, Floats, Arrays, Text, Flat, Vamana bool
	MaxDim                                             int
	Quantizers                                         bool
}

var AllIndexKinds = SchemaOpts{Strings: true, Ints: true, Floats: true, Arrays: true, Text: true, Flat: true, Vamana: true, MaxDim: 4}

var metrics = []string{models.DistanceEuclidean, models.DistanceCosine, models.DistanceDot, models.DistanceHamming, models.DistanceJaccard, models.DistanceHaversine}

func pick[T any](r *rand.Rand, xs []T) T { return xs[r.IntN(len(xs))] }

// addStalls draws the "stalled task" fault of a run (a thread that loses the CPU for
// a long time at an arbitrary point): per scheduling decision the chosen task is, with
// this probability, not run but kept out for up to StallLen steps while everybody else
// goes on. Drawn last in Generate, so the workload of a run index does not depend on it.
func addStalls(r *rand.Rand, cfg *sim.Config) {
	cfg.StallProb = pick(r, []float64{0, 0, 0.005, 0.02})
	cfg.StallLen = pick(r, []int{30, 150, 600})
	cfg.SpawnStall = pick(r, []float64{0, 0, 0.02, 0.1})
}

// productEligible: product.go supports euclidean / cosine / dot and needs a
// vector length divisible by the number of sub-vectors (>= 2).
func productEligible(metric string, dim int) bool {
	return dim >= 2 && (metric == models.DistanceEuclidean || metric == models.DistanceCosine || metric == models.DistanceDot)
}

func genProductQuantizer(r *rand.Rand, dim int) *models.Quantizer {
	var divs []int
	for d := 2; d <= dim; d++ {
		if dim%d == 0 {
			divs = append(divs, d)
		}
	}
	nc := 2 + r.IntN(5)
	// small trigger so that training happens mid-history (the API demands >= 1000;
	// the shard layer does not, and the trained path is the same)
	return &models.Quantizer{Type: models.QuantizerProduct, Product: &models.ProductQuantizerParameters{
		NumCentroids: nc, NumSubVectors: pick(r, divs), TriggerThreshold: nc + 1 + r.IntN(10)}}
}

func genQuantizer(r *rand.Rand, allowLearned bool, metric string, dim int) *models.Quantizer {
	switch r.IntN(4) {
	case 0:
		return nil
	case 1:
		return &models.Quantizer{Type: models.QuantizerNone}
	case 2:
		if productEligible(metric, dim) {
			return genProductQuantizer(r, dim)
		}
	}
	b := &models.BinaryQuantizerParamaters{DistanceMetric: pick(r, []string{models.DistanceHamming, models.DistanceJaccard})}
	if allowLearned && r.IntN(2) == 0 {
		b.TriggerThreshold = 3 + r.IntN(8) // learned threshold, trained mid-history
	} else {
		b.Threshold = f32p(float32(r.IntN(5)-2) * 0.5)
	}
	return &models.Quantizer{Type: models.QuantizerBinary, Binary: b}
}

func genVamanaParams(r *rand.Rand, dim int, quant bool) *models.IndexVectorVamanaParameters {
	p := &models.IndexVectorVamanaParameters{VectorSize: uint(dim), DistanceMetric: pick(r, metrics),
		SearchSize: 25 + r.IntN(51), DegreeBound: 32 + r.IntN(33), Alpha: 1.1 + float32(r.IntN(5))*0.1}
	if p.Alpha > 1.5 {
		p.Alpha = 1.5
	}
	if p.DistanceMetric == models.DistanceHaversine {
		p.VectorSize = 2
	}
	if quant {
		p.Quantizer = genQuantizer(r, true, p.DistanceMetric, int(p.VectorSize))
	}
	return p
}

func genFlatParams(r *rand.Rand, dim int, quant bool) *models.IndexVectorFlatParameters {
	p := &models.IndexVectorFlatParameters{VectorSize: uint(dim), DistanceMetric: pick(r, metrics)}
	if p.DistanceMetric == models.DistanceHaversine {
		p.VectorSize = 2
	}
	if quant {
		p.Quantizer = genQuantizer(r, true, p.DistanceMetric, int(p.VectorSize))
	}
	return p
}

// GenSchema draws a random index schema over a fixed set of property names.
func GenSchema(r *rand.Rand, o SchemaOpts) models.IndexSchema {
	s := models.IndexSchema{}
	dim := 2 + r.IntN(max(1, o.MaxDim-1))
	add := func(cond bool, p float64, name string, v models.IndexSchemaValue) {
		if cond && r.Float64() < p {
			s[name] = v
		}
	}
	add(o.Strings, 0.6, "s", models.IndexSchemaValue{Type: models.IndexTypeString, String: &models.IndexStringParameters{CaseSensitive: r.IntN(2) == 0}})
	add(o.Strings, 0.4, "meta.tag", models.IndexSchemaValue{Type: models.IndexTypeString, String: &models.IndexStringParameters{CaseSensitive: r.IntN(2) == 0}})
	add(o.Ints, 0.5, "n", models.IndexSchemaValue{Type: models.IndexTypeInteger})
	add(o.Floats, 0.5, "f", models.IndexSchemaValue{Type: models.IndexTypeFloat})
	add(o.Arrays, 0.4, "tags", models.IndexSchemaValue{Type: models.IndexTypeStringArray, StringArray: &models.IndexStringArrayParameters{IndexStringParameters: models.IndexStringParameters{CaseSensitive: r.IntN(2) == 0}}})
	add(o.Text, 0.4, "t", models.IndexSchemaValue{Type: models.IndexTypeText, Text: &models.IndexTextParameters{Analyser: "standard"}})
	add(o.Flat, 0.4, "vf", models.IndexSchemaValue{Type: models.IndexTypeVectorFlat, VectorFlat: genFlatParams(r, dim, o.Quantizers)})
	add(o.Vamana, 0.4, "vv", models.IndexSchemaValue{Type: models.IndexTypeVectorVamana, VectorVamana: genVamanaParams(r, dim, o.Quantizers)})
	return s
}

// ---- values ----------------------------------------------------------------

var stringPool = []string{"a", "A", "ab", "Ab", "abc", "b", "B", "ba", "z", "Zed", "É", "é", "über", "Über", "naïve", "0", "10", "2", " ", "a b", "日本", "日本語", "~", "aa", "aB"}
var intPool = []int64{0, 1, -1, 2, -2, 7, 42, -42, 100, 1000, math.MaxInt64, math.MinInt64, math.MaxInt64 - 1, math.MinInt64 + 1, 1 << 32, -(1 << 32)}
var floatPool = []float64{0, math.Copysign(0, -1), 1, -1, 0.5, -0.5, 2.5, -2.5, 1e-310, -1e-310, 5e-324, -5e-324, 1e300, -1e300, math.MaxFloat64, -math.MaxFloat64, 3.14159, 100, -100, math.SmallestNonzeroFloat64}
var words = []string{"the", "quick", "brown", "fox", "jumps", "over", "lazy", "dog", "and", "a", "of", "Fox", "DOG", "running", "runs", "café", "naïve", "東京", "hello", "world", "search", "vector", "database", "is", "to", "!!!", "...", "x1", "42"}

func genString(r *rand.Rand) string { return pick(r, stringPool) }

func genText(r *rand.Rand) string {
	n := r.IntN(9)
	if r.IntN(8) == 0 {
		return pick(r, []string{"the and of", "!!! ...", "a", " ", "is to the"}) // stop words / punctuation only
	}
	s := ""
	for i := 0; i < n+1; i++ {
		if i > 0 {
			s += " "
		}
		s += pick(r, words)
	}
	return s
}

// vecStyle shapes the stored vectors of a run: "grid" (default), "line" (all points
// on one line: robust pruning then yields chain-like graphs in which deletes orphan
// survivors and the rescue / re-link paths of the graph index run) or "clusters".
// It is set by a property's Generate from the run's PRNG (withVecStyle).
var vecStyle = "grid"

func withVecStyle(style string, f func()) {
	old := vecStyle
	vecStyle = style
	defer func() { vecStyle = old }()
	f()
}

func pickVecStyle(r *rand.Rand) string {
	return pick(r, []string{"grid", "grid", "line", "chain", "chain", "clusters", "ray"})
}

func genVector(r *rand.Rand, dim int, metric string) []float32 {
	v := make([]float32, dim)
	for i := range v {
		// a coarse grid keeps exact arithmetic in float32 and makes ties possible but rare
		v[i] = float32(r.IntN(41)-20) * 0.25
	}
	switch vecStyle {
	case "ray":
		// all vectors on one ray from the origin: under the dot metric the longest one is
		// everybody's nearest neighbour (a hub whose degree reaches the bound first)
		for i := range v {
			v[i] = 0
		}
		v[0] = float32(1+r.IntN(400)) * 0.25
	case "line", "chain":
		t := float32(r.IntN(200)-100) * 0.5
		for i := range v {
			v[i] = 0
		}
		v[0] = t
		if dim > 1 {
			v[1] = 1 // off the origin so that cosine / dot do not degenerate
		}
	case "clusters":
		c := r.IntN(3)
		for i := range v {
			v[i] = float32(c*40-40) + float32(r.IntN(9)-4)*0.25
		}
	}
	if metric == models.DistanceHaversine {
		v[0] = float32(r.IntN(171) - 85)  // latitude
		v[1] = float32(r.IntN(351) - 175) // longitude
	}
	if metric == models.DistanceCosine {
		// the cosine metric is defined on unit vectors (the API normalises nothing): generate unit vectors
		n := 0.0
		for _, x := range v {
			n += float64(x) * float64(x)
		}
		if n == 0 {
			v[0], n = 1, 1
		}
		n = math.Sqrt(n)
		for i := range v {
			v[i] = float32(float64(v[i]) / n)
		}
	}
	return v
}

func vecParams(sv models.IndexSchemaValue) (dim int, metric string) {
	switch sv.Type {
	case models.IndexTypeVectorFlat:
		return int(sv.VectorFlat.VectorSize), sv.VectorFlat.DistanceMetric
	case models.IndexTypeVectorVamana:
		return int(sv.VectorVamana.VectorSize), sv.VectorVamana.DistanceMetric
	}
	return 0, ""
}

// genIndexedValue draws a type-correct value for an indexed property.
func genIndexedValue(r *rand.Rand, sv models.IndexSchemaValue) Val {
	switch sv.Type {
	case models.IndexTypeString:
		return VS(genString(r))
	case models.IndexTypeInteger:
		return VI(pick(r, intPool))
	case models.IndexTypeFloat:
		return VF(pick(r, floatPool))
	case models.IndexTypeStringArray:
		n := r.IntN(4)
		a := make([]string, n)
		for i := range a {
			a[i] = genString(r)
		}
		return VA(a)
	case models.IndexTypeText:
		return VS(genText(r))
	case models.IndexTypeVectorFlat, models.IndexTypeVectorVamana:
		d, m := vecParams(sv)
		return VV(genVector(r, d, m))
	}
	panic("unknown index type " + sv.Type)
}

func genFreeValue(r *rand.Rand, depth int) Val {
	switch r.IntN(7) {
	case 0:
		return VI(pick(r, intPool))
	case 1:
		return VF(pick(r, floatPool))
	case 2:
		return VS(genString(r))
	case 3:
		return VB(r.IntN(2) == 0)
	case 4:
		return VA([]string{genString(r)})
	case 5:
		if depth < 2 {
			m := map[string]Val{}
			for i := 0; i < r.IntN(3); i++ {
				m[pick(r, []string{"k", "tag", "deep"})] = genFreeValue(r, depth+1)
			}
			return VM(m)
		}
		return VS("leaf")
	default:
		return VS(fmt.Sprintf("pad-%0*d", 1+r.IntN(40), r.IntN(10)))
	}
}

// setPath stores v under a dotted path, creating nested maps.
func setPath(d DocSpec, path string, v Val) {
	for i := 0; i < len(path); i++ {
		if path[i] == '.' {
			head, rest := path[:i], path[i+1:]
			cur, ok := d[head]
			if !ok || cur.M == nil {
				cur = VM(nil)
			}
			sub := DocSpec(*cur.M)
			setPath(sub, rest, v)
			d[head] = cur
			return
		}
	}
	d[path] = v
}

// GenDoc draws a document: each indexed property present with probability
// pIndexed (type-correct, as the API layer guarantees), plus free fields.
func GenDoc(r *rand.Rand, schema models.IndexSchema, pIndexed float64) DocSpec {
	d := DocSpec{}
	if r.IntN(25) == 0 {
		return d // empty document
	}
	for _, name := range sortedKeys(schema) {
		if r.Float64() < pIndexed {
			setPath(d, name, genIndexedValue(r, schema[name]))
		}
	}
	if r.IntN(4) == 0 {
		// a value nested three levels deep (select / sort on long dotted paths)
		d["deepdoc"] = VM(map[string]Val{"a": VM(map[string]Val{"b": VM(map[string]Val{"c": VI(int64(r.IntN(20))), "d": VS(genString(r))})})})
	}
	for i := 0; i < r.IntN(3); i++ {
		name := pick(r, []string{"x", "y", "meta", "extra"})
		if name == "meta" {
			// keep "meta" a map so that the nested indexed path stays well-typed
			cur, ok := d["meta"]
			if !ok || cur.M == nil {
				cur = VM(nil)
			}
			(*cur.M)[pick(r, []string{"k", "note"})] = genFreeValue(r, 1)
			d["meta"] = cur
			continue
		}
		d[name] = genFreeValue(r, 0)
	}
	return d
}

func sortedKeys[V any](m map[string]V) []string {
	out := make([]string, 0, len(m))
	for k := range m {
		out = append(out, k)
	}
	sortStrings(out)
	return out
}

func sortStrings(a []string) {
	for i := 1; i < len(a); i++ {
		for j := i; j > 0 && a[j] < a[j-1]; j-- {
			a[j], a[j-1] = a[j-1], a[j]
		}
	}
}

// ---- histories -------------------------------------------------------------

// Op is one step of a single-client history on a shard.
type Op struct {
	Kind   string      `json:"kind"` // insert update delete reopen evict
	Points []PointSpec `json:"points,omitempty"`
	IDs    []int       `json:"ids,omitempty"`
}

type HistoryOpts struct {
	NOps       int
	IDPool     int
	MaxBatch   int
	PReject    float64 // probability that an insert batch contains a repeated or existing id
	POversize  float64
	AllowReopen bool
	PIndexed   float64
	TopLevelOnlyUpdates bool
}

// chainVector places id on a line at distance 10 per id: inserted in ascending order
// (style "chain") robust pruning leaves a chain start -> p0 <-> p1 <-> p2 ..., so that
// deleting a contiguous run orphans the survivor behind it (rescue / re-link paths).
func chainVector(id, dim int, metric string) []float32 {
	v := make([]float32, dim)
	v[0] = float32(id*10 + 10)
	if vecStyle == "ray" {
		v[0] = float32(200-id) * 0.5 // decreasing length in insertion order
	}
	if metric == models.DistanceHaversine {
		v[0] = float32(id%80 + 1)
		v[1] = 10
	}
	if metric == models.DistanceCosine {
		// an arc instead of a line: unit vectors at increasing angle
		a := float64(id+1) * 0.03
		v[0] = float32(math.Cos(a))
		if dim > 1 {
			v[1] = float32(math.Sin(a))
		}
	}
	return v
}

func applyChainVectors(d DocSpec, schema models.IndexSchema, id int) {
	for _, name := range sortedKeys(schema) {
		sv := schema[name]
		if sv.Type == models.IndexTypeVectorFlat || sv.Type == models.IndexTypeVectorVamana {
			dim, metric := vecParams(sv)
			setPath(d, name, VV(chainVector(id, dim, metric)))
		}
	}
}

// GenHistory generates a history against a shadow model so that the interesting
// cases (fresh / existing / deleted / never-stored ids) occur by construction.
// zeroDistanceTwin returns a vector that the index's own distance cannot tell from v
// (distance 0) although it is, where the metric allows, a different vector.
func zeroDistanceTwin(metric string, quant *models.Quantizer, v []float32) []float32 {
	out := make([]float32, len(v))
	bits := func(th float32) []float32 {
		for i, x := range v {
			if x > th {
				out[i] = x + 1
			} else {
				out[i] = x - 1
			}
		}
		return out
	}
	switch {
	case metric == models.DistanceHamming || metric == models.DistanceJaccard:
		return bits(0.5)
	case quant != nil && quant.Type == models.QuantizerBinary && quant.Binary != nil && quant.Binary.Threshold != nil:
		return bits(*quant.Binary.Threshold)
	case metric == models.DistanceDot && len(v) >= 2:
		// orthogonal: rotate the first two components (a zero vector is at distance 0 from everything)
		out[0], out[1] = -v[1], v[0]
		if v[0] == 0 && v[1] == 0 {
			out[0] = 1
		}
		return out
	}
	copy(out, v) // euclidean, cosine on unit vectors, haversine: only the vector itself
	return out
}

var genStopWords = map[string]bool{"the": true, "and": true, "a": true, "of": true, "is": true, "to": true, "!!!": true, "...": true}

// shiftTermFrequencies rewrites a text so that its set of distinct (non-stop) words
// and its length stay the same while one occurrence of a repeated word becomes another
// word of the text: "fox fox dog" -> "fox dog dog".
func shiftTermFrequencies(txt string) (string, bool) {
	words := strings.Fields(txt)
	count := map[string]int{}
	for _, w := range words {
		count[strings.ToLower(w)]++
	}
	from, to := -1, ""
	for i, w := range words {
		lw := strings.ToLower(w)
		if from < 0 && count[lw] >= 2 && !genStopWords[lw] {
			from = i
		}
	}
	if from < 0 {
		return "", false
	}
	for _, w := range words {
		lw := strings.ToLower(w)
		if lw != strings.ToLower(words[from]) && !genStopWords[lw] {
			to = w
			break
		}
	}
	if to == "" {
		return "", false
	}
	out := append([]string(nil), words...)
	out[from] = to
	return strings.Join(out, " "), true
}

func GenHistory(r *rand.Rand, schema models.IndexSchema, maxPointSize int, o HistoryOpts) []Op {
	shadow := NewRefShard(maxPointSize)
	var ops []Op
	everStored := map[int]bool{}
	chainWarmup := 0
	if vecStyle == "chain" {
		chainWarmup = 4 + r.IntN(5) // a pure chain first: single ascending inserts
	}
	for len(ops) < o.NOps || len(ops) < chainWarmup+2 {
		x := r.Float64()
		live := shadow.IDs()
		if len(ops) < chainWarmup {
			x = 0 // insert
		} else if len(ops) == chainWarmup && chainWarmup > 0 {
			x = 0.8 // then a contiguous delete
		}
		switch {
		case x < 0.45 || len(live) == 0:
			n := r.IntN(o.MaxBatch + 1)
			var batch []PointSpec
			used := map[int]bool{}
			if vecStyle == "chain" {
				// ascending ids, one per batch (two later on), vectors on the chain
				n = 1
				if len(ops) > chainWarmup && r.IntN(3) == 0 {
					n = 2
				}
				for id := 0; id < o.IDPool && len(batch) < n; id++ {
					if _, isLive := shadow.Docs[PID(id)]; isLive || everStored[id] {
						continue
					}
					d := GenDoc(r, schema, 1)
					applyChainVectors(d, schema, id)
					used[id] = true
					batch = append(batch, PointSpec{ID: id, Doc: d})
				}
			}
			for tries := 0; vecStyle != "chain" && len(batch) < n && tries < 200; tries++ {
				id := r.IntN(o.IDPool)
				if _, isLive := shadow.Docs[PID(id)]; isLive || used[id] {
					continue
				}
				used[id] = true
				batch = append(batch, PointSpec{ID: id, Doc: GenDoc(r, schema, o.PIndexed)})
				if len(used)+len(live) >= o.IDPool {
					break
				}
			}
			if r.Float64() < o.PReject && len(batch) > 0 {
				if r.IntN(2) == 0 && len(live) > 0 {
					batch = append(batch, PointSpec{ID: PIDIndex(pick(r, live)), Doc: GenDoc(r, schema, o.PIndexed)})
				} else {
					batch = append(batch, PointSpec{ID: batch[r.IntN(len(batch))].ID, Doc: GenDoc(r, schema, o.PIndexed)})
				}
				r.Shuffle(len(batch), func(i, j int) { batch[i], batch[j] = batch[j], batch[i] })
			}
			ops = append(ops, Op{Kind: "insert", Points: batch})
			if !shadow.Insert(batch) {
				for _, p := range batch {
					everStored[p.ID] = true
				}
			}
		case x < 0.72:
			n := r.IntN(o.MaxBatch + 1)
			var batch []PointSpec
			used := map[int]bool{}
			for i := 0; i < n; i++ {
				var id int
				if r.IntN(5) == 0 || len(live) == 0 {
					id = r.IntN(o.IDPool) // possibly unknown
				} else {
					id = PIDIndex(pick(r, live))
				}
				if used[id] {
					continue
				}
				used[id] = true
				d := DocSpec{}
				full := GenDoc(r, schema, o.PIndexed)
				for _, k := range sortedKeys(full) { // never draw inside a Go map iteration: one seed = one workload
					if r.IntN(2) == 0 {
						d[k] = full[k]
					}
				}
				if vecStyle == "chain" && r.IntN(4) != 0 {
					// keep the chain: most updates leave the vector fields alone
					for _, name := range sortedKeys(schema) {
						if t := schema[name].Type; t == models.IndexTypeVectorFlat || t == models.IndexTypeVectorVamana {
							delete(d, name)
						}
					}
				}
				// now and then the new vector is a different vector at distance zero from the
				// stored one under the index's own distance (orthogonal for dot, same bits for
				// hamming / jaccard / a fixed binary threshold, identical otherwise): an update
				// that must still replace the stored vector
				if cur, ok := shadow.Docs[PID(id)]; ok && vecStyle != "chain" {
					for _, name := range sortedKeys(schema) {
						t := schema[name].Type
						if (t != models.IndexTypeVectorFlat && t != models.IndexTypeVectorVamana) || r.IntN(4) != 0 {
							continue
						}
						dim, metric, quant := vecIndexInfo(schema[name])
						if old, ok := docVector(cur, name, dim); ok {
							d[name] = VV(zeroDistanceTwin(metric, quant, old))
						}
					}
				}
				// ... and now and then a text is rewritten with the same distinct words and the
				// same number of words but other multiplicities (only term frequencies change)
				if cur, ok := shadow.Docs[PID(id)]; ok {
					for _, name := range sortedKeys(schema) {
						if schema[name].Type != models.IndexTypeText || r.IntN(4) != 0 {
							continue
						}
						if old, ok := Lookup(cur, name); ok {
							if txt, ok := old.(string); ok {
								if twin, ok := shiftTermFrequencies(txt); ok {
									d[name] = VS(twin)
								}
							}
						}
					}
				}
				// remove some fields of the stored document
				if cur, ok := shadow.Docs[PID(id)]; ok {
					for _, k := range sortedKeys(cur) {
						if r.IntN(5) == 0 {
							d[k] = Val{Del: true}
						}
					}
				}
				if r.Float64() < o.POversize {
					d["big"] = VS(fmt.Sprintf("%0*d", maxPointSize, 7))
				}
				batch = append(batch, PointSpec{ID: id, Doc: d})
			}
			ops = append(ops, Op{Kind: "update", Points: batch})
			shadow.Update(batch)
		case x < 0.92:
			n := 1 + r.IntN(o.MaxBatch)
			var ids []int
			if vecStyle == "chain" && len(live) > 2 {
				// a contiguous run of live ids (live is sorted by id)
				k := min(2+r.IntN(3), len(live)-1)
				start := r.IntN(len(live) - k + 1)
				for _, u := range live[start : start+k] {
					ids = append(ids, PIDIndex(u))
				}
				n = 0
			}
			for i := 0; i < n; i++ {
				if r.IntN(5) == 0 || len(live) == 0 {
					ids = append(ids, r.IntN(o.IDPool))
				} else {
					ids = append(ids, PIDIndex(pick(r, live)))
				}
			}
			ops = append(ops, Op{Kind: "delete", IDs: ids})
			shadow.Delete(ids)
		default:
			if o.AllowReopen {
				ops = append(ops, Op{Kind: pick(r, []string{"reopen", "evict"})})
			}
		}
	}
	return ops
}

// shrinkOps proposes smaller histories: drop one op, drop one batch element.
func shrinkOps(ops []Op) [][]Op {
	var out [][]Op
	// drop halves first, then single ops
	if len(ops) > 3 {
		out = append(out, append([]Op(nil), ops[:len(ops)/2]...), append([]Op(nil), ops[len(ops)/2:]...))
	}
	for i := len(ops) - 1; i >= 0; i-- {
		c := append(append([]Op(nil), ops[:i]...), ops[i+1:]...)
		out = append(out, c)
	}
	for i := range ops {
		for j := range ops[i].Points {
			c := append([]Op(nil), ops...)
			pts := append(append([]PointSpec(nil), ops[i].Points[:j]...), ops[i].Points[j+1:]...)
			c[i].Points = pts
			out = append(out, c)
		}
		for j := range ops[i].IDs {
			c := append([]Op(nil), ops...)
			ids := append(append([]int(nil), ops[i].IDs[:j]...), ops[i].IDs[j+1:]...)
			c[i].IDs = ids
			out = append(out, c)
		}
	}
	return out
}
