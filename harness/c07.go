package harness

import (
	"encoding/json"
	"fmt"
	"math/rand/v2"
	"os"
	"path/filepath"
	"strings"

	"github.com/semafind/semadb/models"
	sim "github.com/semafind/semadb/zzsimrt"
)

// C07 — a write batch is all-or-nothing under rejection, storage faults and crashes.
//
// One spec = one history, one target batch and a list of faults. For each fault
// a fresh simulated process replays the history (same seed => same execution up
// to the fault) with that single fault armed for the target batch.
type c07Fault struct {
	Kind  string  `json:"kind"`
	K     int     `json:"k,omitempty"`      // explicit ordinal (replay / enumeration)
	KFrac float64 `json:"k_frac,omitempty"` // position inside the batch as a fraction of the dry-run count
}

type c07Params struct {
	Schema       models.IndexSchema     `json:"schema"`
	CacheSize    int64                  `json:"cache_size"`
	MaxPointSize int                    `json:"max_point_size"`
	IDPool       int                    `json:"id_pool"`
	Ops          []Op                   `json:"ops"`
	Target       int                    `json:"target"` // index into Ops of the batch under fault
	Faults       []c07Fault             `json:"faults"`
	Enumerate    bool                   `json:"enumerate,omitempty"` // every kind x every k of the target batch
	Panel        []models.SearchRequest `json:"panel"`
}

type c07 struct{}

func init() { Register(c07{}) }

func (c07) ID() string { return "C07" }

func (c07) Rule() string {
	return "each evaluation = one (history, target batch, fault) triple executed on a real bbolt-backed shard with vamana+text+inverted indexes and a shared cache, under one seeded schedule. Faults: validation rejections (duplicate id, existing id, oversized merge, wrong field type), error from the k-th put / delete / scan / bucket-open of the batch, commit failure (proxy), disk full and meta-page write failure (bbolt failpoints), process kill at the k-th storage operation, before commit, between data-page and meta-page sync (failpoints), right after commit. A dry run counts the batch's storage operations so that k ranges over them (thorough: all k of a sampled history = exhaustive for that batch). Oracle: a batch that was handed a storage error must fail (storage-error-swallowed otherwise); failed call => warm answers, cold answers on a file copy and the logical file digest equal the pre-batch state and the history continues correctly; success => post-batch state; kill => reopened copy is exactly pre- or post-batch state as the crash point dictates. Non-trivial: the fault actually fired inside a batch that had in-flight index work. Distinct: different (trace hash, fault)."
}

var c07ErrKinds = []string{"put-err", "delete-err", "scan-err", "bucket-err", "commit-err", "diskfull", "meta-err"}
var c07KillKinds = []string{"kill-op", "kill-pre-commit", "kill-sync-data", "kill-sync-meta", "kill-post-commit"}
var c07RejectKinds = []string{"reject-dup", "reject-existing", "reject-oversize", "reject-type"}

func c07Schema(r *rand.Rand) models.IndexSchema {
	s := models.IndexSchema{
		"vv": {Type: models.IndexTypeVectorVamana, VectorVamana: genVamanaParams(r, 2+r.IntN(3), r.IntN(3) == 0)},
		"t":  {Type: models.IndexTypeText, Text: &models.IndexTextParameters{Analyser: "standard"}},
		"s":  {Type: models.IndexTypeString, String: &models.IndexStringParameters{CaseSensitive: r.IntN(2) == 0}},
	}
	if r.IntN(2) == 0 {
		s["n"] = models.IndexSchemaValue{Type: models.IndexTypeInteger}
	}
	if r.IntN(2) == 0 {
		s["vf"] = models.IndexSchemaValue{Type: models.IndexTypeVectorFlat, VectorFlat: genFlatParams(r, 2+r.IntN(3), r.IntN(3) == 0)}
	}
	if r.IntN(3) == 0 {
		s["tags"] = models.IndexSchemaValue{Type: models.IndexTypeStringArray, StringArray: &models.IndexStringArrayParameters{}}
	}
	return s
}

func (c07) Generate(r *rand.Rand, tier string) (sim.Config, any) {
	cfg := RandomSimConfig(r)
	cfg.StmtYield = pick(r, []float64{0, 0, 0.02, 0.1}) // statement-level preemption in shard.go, the index dispatch, the inverted / text indexes and the pipeline helpers
	cfg.TimeJumpProb = pick(r, []float64{0, 0, 0.02})    // timers (there are none on the pinned tree) may fire while stages are parked
	old := vecStyle
	vecStyle = pickVecStyle(r)
	defer func() { vecStyle = old }()
	p := c07Params{Schema: c07Schema(r), MaxPointSize: 400 + r.IntN(400), IDPool: 14 + r.IntN(10)}
	p.CacheSize = pick(r, []int64{-1, -1, -1, 1 << 20, 3000})
	nops := 3 + r.IntN(6)
	p.Ops = GenHistory(r, p.Schema, p.MaxPointSize, HistoryOpts{NOps: nops, IDPool: p.IDPool, MaxBatch: 7, PIndexed: 0.85})
	// the target must be a write batch with at least two elements
	var cands []int
	for i, op := range p.Ops {
		if (op.Kind == "insert" || op.Kind == "update") && len(op.Points) >= 2 || op.Kind == "delete" && len(op.IDs) >= 1 {
			cands = append(cands, i)
		}
	}
	if len(cands) == 0 {
		var batch []PointSpec
		for i := 0; i < 4; i++ {
			batch = append(batch, PointSpec{ID: p.IDPool + i, Doc: GenDoc(r, p.Schema, 0.9)})
		}
		p.Ops = append(p.Ops, Op{Kind: "insert", Points: batch})
		cands = []int{len(p.Ops) - 1}
		p.IDPool += 4
	}
	p.Target = pick(r, cands)
	p.Panel = GenPanel(r, p.Schema, p.IDPool, 8)
	if tier == "thorough" && r.IntN(3) == 0 {
		p.Enumerate = true
		addStalls(r, &cfg)
		return cfg, p
	}
	nf := 5
	for i := 0; i < nf; i++ {
		var kind string
		switch x := r.IntN(10); {
		case x < 5:
			kind = pick(r, c07ErrKinds)
		case x < 8:
			kind = pick(r, c07KillKinds)
		default:
			kind = pick(r, c07RejectKinds)
		}
		p.Faults = append(p.Faults, c07Fault{Kind: kind, KFrac: r.Float64()})
	}
	addStalls(r, &cfg)
	return cfg, p
}

func (c07) Sample(raw json.RawMessage) any {
	var p c07Params
	json.Unmarshal(raw, &p)
	kinds := []string{}
	for _, o := range p.Ops {
		kinds = append(kinds, fmt.Sprintf("%s/%d", o.Kind, len(o.Points)+len(o.IDs)))
	}
	return map[string]any{"schema": p.Schema, "cache_size": p.CacheSize, "ops": kinds, "target": p.Target, "faults": p.Faults, "enumerate": p.Enumerate}
}

func (c07) Shrink(raw json.RawMessage) []json.RawMessage {
	var p c07Params
	json.Unmarshal(raw, &p)
	var out []json.RawMessage
	if len(p.Faults) > 1 {
		for i := range p.Faults {
			q := p
			q.Faults = []c07Fault{p.Faults[i]}
			out = append(out, mustJSON(q))
		}
		return out
	}
	// drop ops after the target, then ops before it, then batch elements
	if p.Target < len(p.Ops)-1 {
		q := p
		q.Ops = append([]Op(nil), p.Ops[:p.Target+1]...)
		out = append(out, mustJSON(q))
	}
	for i := 0; i < p.Target; i++ {
		q := p
		q.Ops = append(append([]Op(nil), p.Ops[:i]...), p.Ops[i+1:]...)
		q.Target = p.Target - 1
		out = append(out, mustJSON(q))
	}
	for j := range p.Ops[p.Target].Points {
		if len(p.Ops[p.Target].Points) <= 1 {
			break
		}
		q := p
		q.Ops = append([]Op(nil), p.Ops...)
		t := q.Ops[p.Target]
		t.Points = append(append([]PointSpec(nil), t.Points[:j]...), t.Points[j+1:]...)
		q.Ops[p.Target] = t
		out = append(out, mustJSON(q))
	}
	if len(p.Panel) > 1 {
		q := p
		q.Panel = p.Panel[:len(p.Panel)/2]
		out = append(out, mustJSON(q))
		q2 := p
		q2.Panel = p.Panel[len(p.Panel)/2:]
		out = append(out, mustJSON(q2))
	}
	return out
}

// mutateForRejection turns the target batch into one that validation must reject.
func mutateForRejection(kind string, op Op, m *RefShard, schema models.IndexSchema, maxSize int) (Op, bool) {
	live := m.IDs()
	switch kind {
	case "reject-dup":
		if op.Kind != "insert" || len(op.Points) == 0 {
			return op, false
		}
		op.Points = append(append([]PointSpec(nil), op.Points...), op.Points[0])
	case "reject-existing":
		if op.Kind != "insert" || len(live) == 0 || len(op.Points) == 0 {
			return op, false
		}
		op.Points = append(append([]PointSpec(nil), op.Points...), PointSpec{ID: PIDIndex(live[len(live)/2]), Doc: op.Points[0].Doc})
	case "reject-oversize":
		if op.Kind != "update" || len(live) == 0 {
			return op, false
		}
		big := DocSpec{"big": VS(fmt.Sprintf("%0*d", maxSize+1, 1))}
		op.Points = append(append([]PointSpec(nil), op.Points...), PointSpec{ID: PIDIndex(live[len(live)-1]), Doc: big})
		// an id may occur only once per update batch
		seen := map[int]bool{}
		var pts []PointSpec
		for i := len(op.Points) - 1; i >= 0; i-- {
			if !seen[op.Points[i].ID] {
				seen[op.Points[i].ID] = true
				pts = append([]PointSpec{op.Points[i]}, pts...)
			}
		}
		op.Points = pts
	case "reject-type":
		if op.Kind != "insert" || len(op.Points) < 2 {
			return op, false
		}
		pts := append([]PointSpec(nil), op.Points...)
		last := pts[len(pts)-1]
		d := DocSpec{}
		for k, v := range detRange(last.Doc) {
			d[k] = v
		}
		if _, ok := schema["n"]; ok {
			d["n"] = VS("not a number")
		} else {
			d["s"] = VI(7)
		}
		pts[len(pts)-1] = PointSpec{ID: last.ID, Doc: d}
		op.Points = pts
	}
	return op, true
}

type c07Run struct {
	env   *Env
	p     *c07Params
	col   models.Collection
	probe []int
}

// panelOK asks the panel of the warm instance and of a cold copy and requires
// agreement (the cold copy's file is separately pinned by its digest).
func (c *c07Run) warmEqualsCold(w *ShardWorld, m *RefShard, where string) bool {
	env := c.env
	if !w.AuditDocs(m, c.probe, where+" [warm]") {
		return false
	}
	cold, err := w.ColdCopy(-1)
	if err != nil {
		env.Violate("spurious-error", "cold-open", "%s: cannot open a copy of the database file: %v", where, err)
		return false
	}
	defer cold.Discard()
	if !cold.AuditDocs(m, c.probe, where+" [cold copy]") {
		return false
	}
	wa, ca := w.AskPanel(c.p.Panel), cold.AskPanel(c.p.Panel)
	for i := range wa {
		if wa[i].Err != "" {
			env.Violate("spurious-error", "search-error", "%s: valid query %d failed on the warm instance: %s", where, i, wa[i].Err)
			return false
		}
		if ca[i].Err != "" {
			env.Violate("spurious-error", "search-error-cold", "%s: valid query %d failed on the cold copy: %s", where, i, ca[i].Err)
			return false
		}
	}
	if i, d := ComparePanels(c.p.Panel, wa, ca); i >= 0 {
		q, _ := json.Marshal(c.p.Panel[i].Query)
		env.Violate("atomicity", "warm-vs-cold", "%s: warm instance and cold copy disagree on query %d %s: %s", where, i, q, d)
		return false
	}
	return true
}

// one executes the history with a single fault (or none: dry run) in a fresh
// simulated process. Returns the storage-operation counts of the target batch.
func (c *c07Run) one(f *c07Fault, k int, sub int) (ops map[string]int) {
	env, p := c.env, c.p
	sw := NewStoreWorld()
	sw.Node = "proc"
	sw.Install()
	defer sw.Uninstall()
	dir := filepath.Join(env.Dir, fmt.Sprintf("sub%d", sub))
	os.MkdirAll(dir, 0755)
	subEnv := *env
	subEnv.Dir = dir
	model := NewRefShard(p.MaxPointSize)
	type report struct {
		killed string
		done   bool
	}
	repC := make(chan report, 2)
	var w *ShardWorld
	var m0, m1 *RefShard
	var digest0 string
	var callErr error
	var callReturned bool
	reached := false
	env.RunSim(env.Spec.Sim, func() {
		sw.OnKill = func(reason string) { repC <- report{killed: reason} }
		sim.Go("c07-process", func() {
			sim.SetNode("proc")
			defer func() { repC <- report{done: true} }()
			w = NewShardWorld(&subEnv, sw, c.col, "bbolt", p.CacheSize)
			if err := w.Open(); err != nil {
				env.Infra("open: %v", err)
				return
			}
			for i, op := range p.Ops {
				if i != p.Target {
					if !applyOp(env, w, model, i, op) {
						return
					}
					continue
				}
				// ---- the batch under fault
				reached = true
				if f != nil && strings.HasPrefix(f.Kind, "reject-") {
					mop, ok := mutateForRejection(f.Kind, op, model, p.Schema, p.MaxPointSize)
					if !ok {
						env.Stat("fault-not-applicable", 1)
						return
					}
					op = mop
				}
				m0 = model.Clone()
				m1 = model.Clone()
				switch op.Kind {
				case "insert":
					m1.Insert(op.Points)
				case "update":
					m1.Update(op.Points)
				case "delete":
					m1.Delete(op.IDs)
				}
				d0, err := DumpFile(w.Path)
				if err != nil {
					env.Infra("dump before batch: %v", err)
					return
				}
				digest0 = d0.Digest()
				if f != nil && !strings.HasPrefix(f.Kind, "reject-") {
					sw.Arm(&StoreFault{Batch: i, Kind: f.Kind, K: k})
				}
				switch op.Kind {
				case "insert":
					callErr = w.Insert(op.Points)
				case "update":
					_, callErr = w.Update(op.Points)
				case "delete":
					_, callErr = w.Delete(op.IDs)
				}
				callReturned = true
				ops = sw.LastTxOps()
				fired := sw.Fired()
				sw.Arm(nil)
				if f == nil {
					// dry run: the batch itself must behave per C01
					if callErr != nil {
						*model = *m0
					} else {
						*model = *m1
					}
					continue
				}
				if strings.HasPrefix(f.Kind, "reject-") {
					fired = true
					if callErr == nil {
						env.Violate("wrong-answer", "not-rejected:"+f.Kind, "op %d: a batch that validation must reject (%s) was accepted", i, f.Kind)
						return
					}
				}
				if fired {
					env.Stat("fired:"+f.Kind, 1)
				} else {
					env.Stat("not-fired:"+f.Kind, 1)
				}
				where := fmt.Sprintf("after op %d (%s) with fault %s k=%d (call error: %v)", i, op.Kind, f.Kind, k, callErr)
				if fired && callErr == nil && !strings.HasPrefix(f.Kind, "reject-") {
					// "meets a storage error at any step" => as if never issued: a batch that was
					// handed a storage error must not report success (it would have to be both
					// invisible and, having succeeded, visible)
					env.Violate("atomicity", "storage-error-swallowed:"+f.Kind, "%s: the batch was handed a storage error but reported success", where)
					return
				}
				if callErr != nil {
					// as if never issued
					*model = *m0
					d1, err := DumpFile(w.Path)
					if err != nil {
						env.Violate("atomicity", "file-unreadable", "%s: database file unreadable: %v", where, err)
						return
					}
					if d1.Digest() != digest0 {
						env.Violate("atomicity", "file-changed-by-failed-batch", "%s: the failed batch changed the database file: %s", where, d0.Diff(d1))
						return
					}
				} else {
					*model = *m1
				}
				if !c.warmEqualsCold(w, model, where) {
					return
				}
			}
			// the history continued to the end: a last full check
			if f != nil && reached {
				c.warmEqualsCold(w, model, "at the end of the history")
			}
			w.Close()
		})
		rep := sim.Recv("c07-root", (<-chan report)(repC))
		if rep.killed == "" {
			return
		}
		// ---- the process died: restart on a copy of its file
		env.Stat("fired:"+rep.killed, 1)
		where := fmt.Sprintf("after kill (%s, k=%d) during op %d", rep.killed, k, p.Target)
		if callReturned {
			env.Infra("kill reported after the call returned")
			return
		}
		sim.SetNode("restarted")
		sw.Node = "restarted"
		sw.OnKill = nil
		cold, err := w.ColdCopy(-1)
		if err != nil {
			env.Violate("atomicity", "unopenable-after-kill", "%s: the database file cannot be opened: %v", where, err)
			return
		}
		defer cold.Discard()
		d1, err := DumpFile(cold.Path)
		if err != nil {
			env.Violate("atomicity", "file-unreadable-after-kill", "%s: %v", where, err)
			return
		}
		expectM0 := rep.killed == "kill-op" || rep.killed == "kill-pre-commit" || rep.killed == "kill-sync-data"
		expectM1 := rep.killed == "kill-post-commit" || rep.killed == "kill-sync-meta"
		isM0 := d1.Digest() == digest0
		var m *RefShard
		switch {
		case expectM0 && !isM0:
			env.Violate("atomicity", "partial-after-kill:"+rep.killed, "%s: the reopened file differs from the pre-batch file although the batch never committed", where)
			return
		case expectM0:
			m = m0
		case expectM1 && isM0 && m0.StateKey() != m1.StateKey():
			env.Violate("durability", "lost-after-commit:"+rep.killed, "%s: the storage transaction had committed but the reopened file equals the pre-batch file", where)
			return
		default:
			m = m1
		}
		c2 := &c07Run{env: env, p: p, col: c.col, probe: c.probe}
		if !cold.AuditDocs(m, c.probe, where+" [restarted]") {
			return
		}
		ans := cold.AskPanel(p.Panel)
		for i := range ans {
			if ans[i].Err != "" {
				env.Violate("atomicity", "search-error-after-kill", "%s: valid query %d fails after restart: %s", where, i, ans[i].Err)
				return
			}
		}
		_ = c2
	})
	return ops
}

func (c07) Execute(env *Env) {
	var p c07Params
	if err := json.Unmarshal(env.Spec.Params, &p); err != nil {
		env.Infra("bad params: %v", err)
		return
	}
	c := &c07Run{env: env, p: &p, probe: allIDs(p.IDPool + 4),
		col: models.Collection{UserId: "u", Id: "c", UserPlan: models.UserPlan{MaxPointSize: p.MaxPointSize}, IndexSchema: p.Schema}}
	// dry run: count the storage operations of the target batch
	counts := c.one(nil, 0, 0)
	if env.Violated() || env.res.Infra != "" {
		return
	}
	env.Stat("dry-runs", 1)
	countFor := func(kind string) int {
		switch kind {
		case "put-err":
			return counts["put"]
		case "delete-err":
			return counts["delete"]
		case "scan-err":
			return counts["scan"]
		case "bucket-err":
			return counts["bucket"]
		case "kill-op":
			return counts["total"]
		}
		return 1
	}
	type cf struct {
		f c07Fault
		k int
	}
	var plan []cf
	if p.Enumerate {
		for _, kind := range append(append([]string{}, c07ErrKinds...), c07KillKinds...) {
			for k := 1; k <= countFor(kind); k++ {
				plan = append(plan, cf{c07Fault{Kind: kind, K: k}, k})
			}
		}
		for _, kind := range c07RejectKinds {
			plan = append(plan, cf{c07Fault{Kind: kind}, 0})
		}
		env.Stat("enumerated-batches", 1)
	} else {
		for _, f := range p.Faults {
			k := f.K
			if k == 0 {
				n := countFor(f.Kind)
				if n == 0 {
					env.Stat("fault-without-target:"+f.Kind, 1)
					continue
				}
				k = 1 + int(f.KFrac*float64(n))
				if k > n {
					k = n
				}
			}
			plan = append(plan, cf{f, k})
		}
	}
	fired := 0
	for i, x := range plan {
		before := env.res.Stats["fired:"+x.f.Kind]
		f := x.f
		c.one(&f, x.k, i+1)
		env.Stat("fault-subruns", 1)
		if env.res.Stats["fired:"+x.f.Kind] > before {
			fired++
		}
		if env.Violated() {
			// pin the failing fault so that the replay file is the concrete case
			q := p
			q.Enumerate = false
			q.Faults = []c07Fault{{Kind: x.f.Kind, K: x.k}}
			env.res.Spec.Params = mustJSON(q)
			break
		}
		if env.res.Infra != "" {
			break
		}
	}
	env.Stat("faults-fired", fired)
	env.SetNonTrivial(fired > 0 && counts["total"] > 10)
	if counts["total"] > 10 {
		env.SetEvals(len(plan), fired)
	} else {
		env.SetEvals(len(plan), 0)
	}
	env.SetStateHash(fmt.Sprintf("%d/%d", fired, len(plan)))
}
