package harness

import (
	"bytes"
	"crypto/sha256"
	"fmt"
	"io"
	"os"
	"path/filepath"
	"sort"
	"time"

	"github.com/google/uuid"
	"github.com/semafind/semadb/models"
	"github.com/semafind/semadb/shard"
	"github.com/semafind/semadb/shard/cache"
	"go.etcd.io/bbolt"
)

// ShardWorld is world S of DESIGN.md: one real shard on a real bbolt file (or
// the real in-memory store) behind the storage proxy, with a real cache manager.
type ShardWorld struct {
	Env       *Env
	SW        *StoreWorld
	Col       models.Collection
	Backend   string // bbolt | mem
	Path      string
	CacheSize int64
	CM        *cache.Manager
	Sh        *shard.Shard
	gen       int
}

func NewShardWorld(env *Env, sw *StoreWorld, col models.Collection, backend string, cacheSize int64) *ShardWorld {
	w := &ShardWorld{Env: env, SW: sw, Col: col, Backend: backend, CacheSize: cacheSize}
	if backend == "bbolt" {
		w.Path = filepath.Join(env.Dir, "shard", "sharddb.bbolt")
		os.MkdirAll(filepath.Dir(w.Path), 0755)
	}
	return w
}

func (w *ShardWorld) Open() error {
	w.CM = cache.NewManager(w.CacheSize)
	sh, err := shard.NewShard(w.Path, w.Col, w.CM)
	if err != nil {
		return err
	}
	w.Sh = sh
	return nil
}

func (w *ShardWorld) Close() error {
	if w.Sh == nil {
		return nil
	}
	err := w.Sh.Close()
	w.Sh = nil
	return err
}

// Reopen = clean restart of the process: close, forget every cache, open again.
func (w *ShardWorld) Reopen() error {
	if w.Backend != "bbolt" {
		return nil
	}
	if err := w.Close(); err != nil {
		return err
	}
	return w.Open()
}

// EvictCaches drops the shared caches of this shard (explicit Release).
func (w *ShardWorld) EvictCaches() {
	w.CM.Release(w.Path) // what Shard.Close uses
	// shared caches are registered under "<dbFile>/index/<type>/<property>"
	for name, sv := range detRange(w.Col.IndexSchema) {
		w.CM.Release(w.Path + "/index/" + sv.Type + "/" + name)
	}
}

// ColdCopy opens a fresh shard (fresh cache manager) on a copy of the database
// file as it is now: what a restarted process would see.
func (w *ShardWorld) ColdCopy(cacheSize int64) (*ShardWorld, error) {
	if w.Backend != "bbolt" {
		return nil, fmt.Errorf("cold copy needs a file backend")
	}
	w.gen++
	dir := filepath.Join(w.Env.Dir, fmt.Sprintf("cold%d", w.gen))
	os.MkdirAll(dir, 0755)
	dst := filepath.Join(dir, "sharddb.bbolt")
	if err := copyFile(w.Path, dst); err != nil {
		return nil, err
	}
	c := &ShardWorld{Env: w.Env, SW: w.SW, Col: w.Col, Backend: "bbolt", Path: dst, CacheSize: cacheSize}
	if err := c.Open(); err != nil {
		return nil, err
	}
	return c, nil
}

func (w *ShardWorld) Discard() {
	w.Close()
	if w.Path != "" {
		os.RemoveAll(filepath.Dir(w.Path))
	}
}

func copyFile(src, dst string) error {
	in, err := os.Open(src)
	if err != nil {
		return err
	}
	defer in.Close()
	out, err := os.Create(dst)
	if err != nil {
		return err
	}
	if _, err := io.Copy(out, in); err != nil {
		out.Close()
		return err
	}
	return out.Close()
}

// ---- operations -------------------------------------------------------------

func toPoints(batch []PointSpec) []models.Point {
	pts := make([]models.Point, len(batch))
	for i, p := range batch {
		pts[i] = models.Point{Id: PID(p.ID), Data: p.Doc.Encode()}
	}
	return pts
}

func (w *ShardWorld) Insert(batch []PointSpec) error { return w.Sh.InsertPoints(toPoints(batch)) }

func (w *ShardWorld) Update(batch []PointSpec) ([]uuid.UUID, error) {
	return w.Sh.UpdatePoints(toPoints(batch))
}

func (w *ShardWorld) Delete(ids []int) ([]uuid.UUID, error) {
	set := map[uuid.UUID]struct{}{}
	for _, i := range ids {
		set[PID(i)] = struct{}{}
	}
	return w.Sh.DeletePoints(set)
}

func (w *ShardWorld) Search(req models.SearchRequest) ([]models.SearchResult, error) {
	return w.Sh.SearchPoints(req)
}

func (w *ShardWorld) PointCount() (uint64, error) {
	si, err := w.Sh.Info()
	return si.PointCount, err
}

func resultDoc(r models.SearchResult) (Doc, error) {
	if r.DecodedData != nil {
		// normalise through msgpack so that types equal the model's
		return DocSpecFromAny(r.DecodedData)
	}
	return DecodeDoc(r.Data)
}

// DocSpecFromAny round-trips an arbitrary decoded map through msgpack.
func DocSpecFromAny(m map[string]any) (Doc, error) {
	b, err := msgpackMarshal(m)
	if err != nil {
		return nil, err
	}
	return DecodeDoc(b)
}

// ReadByIDs performs the "_id containsAny" lookup with select ["*"].
func (w *ShardWorld) ReadByIDs(ids []int) (map[uuid.UUID]Doc, error) {
	strs := make([]string, len(ids))
	for i, id := range ids {
		strs[i] = PID(id).String()
	}
	if len(strs) == 0 {
		return map[uuid.UUID]Doc{}, nil
	}
	res, err := w.Sh.SearchPoints(models.SearchRequest{
		Query:  models.Query{Property: "_id", StringArray: &models.SearchStringArrayOptions{Value: strs, Operator: models.OperatorContainsAny}},
		Select: []string{"*"},
	})
	if err != nil {
		return nil, err
	}
	out := map[uuid.UUID]Doc{}
	for _, r := range res {
		if _, dup := out[r.Id]; dup {
			return nil, fmt.Errorf("id %d returned twice by one _id lookup", PIDIndex(r.Id))
		}
		d, err := resultDoc(r)
		if err != nil {
			return nil, fmt.Errorf("undecodable document for id %d: %w", PIDIndex(r.Id), err)
		}
		out[r.Id] = d
	}
	return out, nil
}

// AuditDocs compares the stored id set, every full document and the point
// count with the model. probe lists ids to ask for (model ids and absent ones).
func (w *ShardWorld) AuditDocs(m *RefShard, probe []int, where string) (ok bool) {
	env := w.Env
	pc, err := w.PointCount()
	if err != nil {
		env.Violate("spurious-error", "info-error", "%s: Info failed: %v", where, err)
		return false
	}
	if int(pc) != len(m.Docs) {
		env.Violate("wrong-answer", "point-count", "%s: point count %d, model has %d points", where, pc, len(m.Docs))
		return false
	}
	got, err := w.ReadByIDs(probe)
	if err != nil {
		env.Violate("spurious-error", "read-error", "%s: _id read failed: %v", where, err)
		return false
	}
	for _, i := range probe {
		id := PID(i)
		want, live := m.Docs[id]
		have, found := got[id]
		switch {
		case live && !found:
			env.Violate("wrong-answer", "missing-point", "%s: stored point %d is not returned by its id", where, i)
			return false
		case !live && found:
			env.Violate("wrong-answer", "ghost-point", "%s: point %d is returned although the model does not hold it: %v", where, i, have)
			return false
		case live && !DocEqual(want, have):
			env.Violate("wrong-answer", "wrong-document", "%s: point %d: stored document %v, model %v", where, i, have, want)
			return false
		}
	}
	for id := range detRange(got) {
		if _, asked := m.Docs[id]; !asked {
			found := false
			for _, i := range probe {
				if PID(i) == id {
					found = true
				}
			}
			if !found {
				env.Violate("wrong-answer", "unasked-point", "%s: _id lookup returned id %v that was not asked for", where, id)
				return false
			}
		}
	}
	return true
}

// ---- raw dumps --------------------------------------------------------------

// Dump is the logical content of a database file: bucket -> key -> value.
type Dump map[string]map[string][]byte

// DumpFile reads a copy of path with bbolt directly (read-only), so that a live
// store is never touched.
func DumpFile(path string) (Dump, error) {
	tmp := path + ".dump"
	if err := copyFile(path, tmp); err != nil {
		return nil, err
	}
	defer os.Remove(tmp)
	db, err := bbolt.Open(tmp, 0600, &bbolt.Options{ReadOnly: true, Timeout: time.Second})
	if err != nil {
		return nil, fmt.Errorf("dump: cannot open copy: %w", err)
	}
	defer db.Close()
	d := Dump{}
	err = db.View(func(tx *bbolt.Tx) error {
		if errs := tx.Check(); errs != nil {
			for e := range errs {
				return fmt.Errorf("bbolt consistency check: %w", e)
			}
		}
		return tx.ForEach(func(name []byte, b *bbolt.Bucket) error {
			m := map[string][]byte{}
			d[string(name)] = m
			return b.ForEach(func(k, v []byte) error {
				m[string(k)] = append([]byte(nil), v...)
				return nil
			})
		})
	})
	return d, err
}

func (d Dump) Digest() string {
	h := sha256.New()
	names := make([]string, 0, len(d))
	for n := range detRange(d) {
		names = append(names, n)
	}
	sort.Strings(names)
	for _, n := range names {
		keys := make([]string, 0, len(d[n]))
		for k := range detRange(d[n]) {
			keys = append(keys, k)
		}
		if len(keys) == 0 {
			continue // an empty bucket holds no data
		}
		sort.Strings(keys)
		fmt.Fprintf(h, "B%d:%s", len(n), n)
		for _, k := range keys {
			fmt.Fprintf(h, "K%d:%s V%d:", len(k), k, len(d[n][k]))
			h.Write(d[n][k])
		}
	}
	return fmt.Sprintf("%x", h.Sum(nil)[:12])
}

func (d Dump) Diff(o Dump) string {
	var b bytes.Buffer
	for n, m := range detRange(d) {
		for k, v := range detRange(m) {
			if ov, ok := o[n][k]; !ok {
				fmt.Fprintf(&b, "only-left %s/%x; ", n, k)
			} else if !bytes.Equal(v, ov) {
				fmt.Fprintf(&b, "differs %s/%x; ", n, k)
			}
			if b.Len() > 600 {
				return b.String()
			}
		}
	}
	for n, m := range detRange(o) {
		for k := range detRange(m) {
			if _, ok := d[n][k]; !ok {
				fmt.Fprintf(&b, "only-right %s/%x; ", n, k)
			}
			if b.Len() > 600 {
				return b.String()
			}
		}
	}
	return b.String()
}
