package harness

import (
	"io"
	"os"
	"sync"

	"github.com/rs/zerolog"
	"github.com/rs/zerolog/log"
	sim "github.com/semafind/semadb/zzsimrt"
)

// Rare-branch probes: semadb's own debug messages, counted without I/O,
// PRNG draws or clock reads.
var probeMessages = map[string]string{
	"Creating read only cold cache":                "probe:cold-readonly-cache",
	"Cache is scrapped, using temporary new cache": "probe:scrapped-cache-seen",
	"Pruning cache":                                "probe:cache-pruned",
	"Reusing cache":                                "probe:cache-reused",
	"Creating new cache":                           "probe:cache-created",
	"Retrying rpc call":                            "probe:rpc-retry",
	"Removed dead client":                          "probe:rpc-dead-client",
	"Released cache":                               "probe:cache-released",
	"orphan rescue":                                "probe:orphan-rescue",
}

var (
	probeMu        sync.Mutex
	probeUnloading = map[string]bool{} // tasks between "Unloading shard" and their exit; reset per run
)

func resetProbes() {
	probeMu.Lock()
	probeUnloading = map[string]bool{}
	probeMu.Unlock()
}

// unloadMark / unloadOverlapped bracket one sequential request: did an idle unload of
// some shard overlap it?
type unloadMark struct{ begun, active int }

func markUnloads() unloadMark {
	b := sim.Counter("probe:shard-unload-begin")
	return unloadMark{begun: b, active: b - sim.Counter("probe:shard-unload-end")}
}

func (m unloadMark) overlapped() bool {
	return m.active > 0 || sim.Counter("probe:shard-unload-begin") > m.begun
}

type probeHook struct{}

func (probeHook) Run(e *zerolog.Event, level zerolog.Level, msg string) {
	if name, ok := probeMessages[msg]; ok {
		sim.Count(name)
	}
	// idle unloads in progress (cluster/shardmgr.go cleanupRoutine): from "Unloading
	// shard" until that goroutine exits; a request that meets a shard in this window is
	// answered with the clean "already closed" / "shard unavailable" error (C12 allows it)
	switch msg {
	case "Unloading shard":
		probeMu.Lock()
		probeUnloading[sim.CurrentTask()] = true
		probeMu.Unlock()
		sim.Count("probe:shard-unload-begin")
	case "Stopping shard cleanup goroutine":
		probeMu.Lock()
		was := probeUnloading[sim.CurrentTask()]
		delete(probeUnloading, sim.CurrentTask())
		probeMu.Unlock()
		if was {
			sim.Count("probe:shard-unload-end")
		}
	}
	if logToStderr {
		e.Str("task", sim.CurrentTask())
	}
}

// SIM_LOG=1: debugging aid, semadb's own log lines on stderr tagged with the
// simulated task (no effect on the schedule).
var logToStderr = os.Getenv("SIM_LOG") != ""

func installProbes() {
	zerolog.SetGlobalLevel(zerolog.DebugLevel)
	var w io.Writer = io.Discard
	if logToStderr {
		w = os.Stderr
	}
	log.Logger = zerolog.New(w).Hook(probeHook{})
}
