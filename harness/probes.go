package harness

import (
	"io"
	"os"

	"github.com/rs/zerolog"
	"github.com/rs/zerolog/log"
	sim "github.com/semafind/semadb/zzsimrt"
)

// Rare-branch probes: semadb's own debug messages, counted without I/O,
// PRNG draws or clock reads.
var probeMessages = map[string]string{
	"Creating read only cold cache":                "probe:cold-readonly-cache",
	"Cache is scrapped, using temporary new cache": "probe:scrapped-cache-seen",
	"Pruning cache":                                "probe:cache-pruned",
	"Reusing cache":                                "probe:cache-reused",
	"Creating new cache":                           "probe:cache-created",
	"Retrying rpc call":                            "probe:rpc-retry",
	"Removed dead client":                          "probe:rpc-dead-client",
	"Released cache":                               "probe:cache-released",
	"orphan rescue":                                "probe:orphan-rescue",
}

type probeHook struct{}

func (probeHook) Run(e *zerolog.Event, level zerolog.Level, msg string) {
	if name, ok := probeMessages[msg]; ok {
		sim.Count(name)
	}
	if logToStderr {
		e.Str("task", sim.CurrentTask())
	}
}

// SIM_LOG=1: debugging aid, semadb's own log lines on stderr tagged with the
// simulated task (no effect on the schedule).
var logToStderr = os.Getenv("SIM_LOG") != ""

func installProbes() {
	zerolog.SetGlobalLevel(zerolog.DebugLevel)
	var w io.Writer = io.Discard
	if logToStderr {
		w = os.Stderr
	}
	log.Logger = zerolog.New(w).Hook(probeHook{})
}
