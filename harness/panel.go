package harness

import (
	"fmt"
	"math"
	"math/rand/v2"
	"sort"

	"github.com/semafind/semadb/models"
)

// A query panel is a list of search requests covering every index of a schema;
// it is asked of different instances (warm, cold, cache-disabled, restarted)
// whose answers must agree, and of the reference model where it has an evaluator.

func genFilterQuery(r *rand.Rand, schema models.IndexSchema, name string) *models.Query {
	sv := schema[name]
	q := &models.Query{Property: name}
	switch sv.Type {
	case models.IndexTypeString:
		op := pick(r, []string{models.OperatorEquals, models.OperatorNotEquals, models.OperatorStartsWith, models.OperatorGreaterThan, models.OperatorGreaterOrEq, models.OperatorLessThan, models.OperatorLessOrEq, models.OperatorInRange})
		v := genQueryString(r)
		o := &models.SearchStringOptions{Value: v, Operator: op}
		if op == models.OperatorInRange {
			e := genQueryString(r)
			if e == v {
				e = v + "z"
			}
			if e < v {
				v, e = e, v
			}
			o.Value, o.EndValue = v, e
		}
		q.String = o
	case models.IndexTypeInteger:
		op := pick(r, []string{models.OperatorEquals, models.OperatorNotEquals, models.OperatorGreaterThan, models.OperatorGreaterOrEq, models.OperatorLessThan, models.OperatorLessOrEq, models.OperatorInRange})
		v := pick(r, intPool)
		o := &models.SearchIntegerOptions{Value: v, Operator: op}
		if op == models.OperatorInRange {
			e := pick(r, intPool)
			if e == v {
				if v == math.MaxInt64 {
					v--
				} else {
					e = v + 1
				}
			}
			if e < v {
				v, e = e, v
			}
			o.Value, o.EndValue = v, e
		}
		q.Integer = o
	case models.IndexTypeFloat:
		op := pick(r, []string{models.OperatorEquals, models.OperatorNotEquals, models.OperatorGreaterThan, models.OperatorGreaterOrEq, models.OperatorLessThan, models.OperatorLessOrEq, models.OperatorInRange})
		v := pick(r, floatPool)
		o := &models.SearchFloatOptions{Value: v, Operator: op}
		if op == models.OperatorInRange {
			e := pick(r, floatPool)
			for tries := 0; !(e > v) && !(e < v) && tries < 20; tries++ {
				e = pick(r, floatPool)
			}
			if !(e > v) && !(e < v) {
				v, e = -1, 1
			}
			if e < v {
				v, e = e, v
			}
			o.Value, o.EndValue = v, e
		}
		q.Float = o
	case models.IndexTypeStringArray:
		n := 1 + r.IntN(3)
		vals := make([]string, n)
		for i := range vals {
			vals[i] = genQueryString(r)
		}
		q.StringArray = &models.SearchStringArrayOptions{Value: vals, Operator: pick(r, []string{models.OperatorContainsAll, models.OperatorContainsAny})}
	default:
		return nil
	}
	return q
}

// genQueryString: a query operand; the empty string is a legal bound / operand
// (the smallest string) even though it is rarely a stored value.
func genQueryString(r *rand.Rand) string {
	if r.IntN(12) == 0 {
		return ""
	}
	return genString(r)
}

func filterProps(schema models.IndexSchema) []string {
	var out []string
	for _, k := range sortedKeys(schema) {
		switch schema[k].Type {
		case models.IndexTypeString, models.IndexTypeInteger, models.IndexTypeFloat, models.IndexTypeStringArray:
			out = append(out, k)
		}
	}
	return out
}

// genFilterTree draws a filter query tree (depth <= 3) including _id lookups.
func genFilterTree(r *rand.Rand, schema models.IndexSchema, idPool, depth int) *models.Query {
	fp := filterProps(schema)
	x := r.IntN(10)
	if depth >= 3 || x < 6 || len(fp) == 0 {
		if len(fp) == 0 || r.IntN(6) == 0 {
			// _id lookup
			if r.IntN(2) == 0 {
				return &models.Query{Property: "_id", String: &models.SearchStringOptions{Value: PID(r.IntN(idPool)).String(), Operator: models.OperatorEquals}}
			}
			n := 1 + r.IntN(5)
			ids := make([]string, n)
			for i := range ids {
				ids[i] = PID(r.IntN(idPool)).String()
			}
			return &models.Query{Property: "_id", StringArray: &models.SearchStringArrayOptions{Value: ids, Operator: models.OperatorContainsAny}}
		}
		return genFilterQuery(r, schema, pick(r, fp))
	}
	n := 1 + r.IntN(3)
	subs := make([]models.Query, n)
	for i := range subs {
		subs[i] = *genFilterTree(r, schema, idPool, depth+1)
	}
	if x < 8 {
		return &models.Query{Property: "_and", And: subs}
	}
	return &models.Query{Property: "_or", Or: subs}
}

func genTextQueryString(r *rand.Rand) string {
	switch r.IntN(8) {
	case 0:
		return "the and of" // analyses to zero terms
	case 1:
		return pick(r, words) + " " + pick(r, words) + " " + pick(r, words)
	case 2:
		w := pick(r, words)
		return w + " " + w // repeated term
	}
	n := 1 + r.IntN(3)
	s := ""
	for i := 0; i < n; i++ {
		if i > 0 {
			s += " "
		}
		s += pick(r, words)
	}
	return s
}

func genWeight(r *rand.Rand) *float32 {
	switch r.IntN(5) {
	case 0:
		return nil
	case 1:
		return f32p(0)
	case 2:
		return f32p(-1.5)
	}
	return f32p(float32(r.IntN(9)+1) * 0.25)
}

// genRankQuery draws a ranking query (vector or text) on property name.
func genRankQuery(r *rand.Rand, schema models.IndexSchema, name string, idPool int, withFilter bool) *models.Query {
	sv := schema[name]
	var filter *models.Query
	if withFilter && r.IntN(3) == 0 {
		filter = genFilterTree(r, schema, idPool, 1)
	}
	switch sv.Type {
	case models.IndexTypeVectorFlat:
		d, m := vecParams(sv)
		return &models.Query{Property: name, VectorFlat: &models.SearchVectorFlatOptions{Vector: genVector(r, d, m), Operator: models.OperatorNear, Limit: 1 + r.IntN(pick(r, []int{3, 10, 75})), Filter: filter, Weight: genWeight(r)}}
	case models.IndexTypeVectorVamana:
		d, m := vecParams(sv)
		ss := 25 + r.IntN(51)
		return &models.Query{Property: name, VectorVamana: &models.SearchVectorVamanaOptions{Vector: genVector(r, d, m), Operator: models.OperatorNear, SearchSize: ss, Limit: 1 + r.IntN(min(ss, pick(r, []int{3, 10, 75}))), Filter: filter, Weight: genWeight(r)}}
	case models.IndexTypeText:
		return &models.Query{Property: name, Text: &models.SearchTextOptions{Value: genTextQueryString(r), Operator: pick(r, []string{models.OperatorContainsAll, models.OperatorContainsAny}), Limit: 1 + r.IntN(pick(r, []int{3, 10, 75})), Filter: filter, Weight: genWeight(r)}}
	}
	return nil
}

func rankProps(schema models.IndexSchema) []string {
	var out []string
	for _, k := range sortedKeys(schema) {
		switch schema[k].Type {
		case models.IndexTypeVectorFlat, models.IndexTypeVectorVamana, models.IndexTypeText:
			out = append(out, k)
		}
	}
	return out
}

// GenPanel draws n search requests touching every index kind of the schema.
func GenPanel(r *rand.Rand, schema models.IndexSchema, idPool, n int) []models.SearchRequest {
	var out []models.SearchRequest
	rp, fp := rankProps(schema), filterProps(schema)
	for _, name := range rp { // every ranking index at least once
		out = append(out, models.SearchRequest{Query: *genRankQuery(r, schema, name, idPool, true), Select: []string{"*"}})
	}
	for _, name := range fp {
		out = append(out, models.SearchRequest{Query: *genFilterQuery(r, schema, name), Select: []string{"*"}})
	}
	for len(out) < n {
		if len(rp) > 0 && r.IntN(2) == 0 {
			out = append(out, models.SearchRequest{Query: *genRankQuery(r, schema, pick(r, rp), idPool, true), Select: []string{"*"}})
		} else {
			out = append(out, models.SearchRequest{Query: *genFilterTree(r, schema, idPool, 0), Select: []string{"*"}})
		}
	}
	return out
}

// ---- answers ---------------------------------------------------------------

type Item struct {
	ID     int
	Dist   *float32
	Score  *float32
	Hybrid float32
	Doc    Doc
}

type Answer struct {
	Err    string
	Items  []Item
	Ranked bool
}

func toAnswer(res []models.SearchResult, err error) Answer {
	if err != nil {
		return Answer{Err: err.Error()}
	}
	a := Answer{}
	for _, r := range res {
		it := Item{ID: PIDIndex(r.Id), Dist: r.Distance, Score: r.Score, Hybrid: r.HybridScore}
		if d, e := resultDoc(r); e == nil {
			it.Doc = d
		} else if a.Err == "" {
			// a result whose document cannot be decoded is not an answer
			return Answer{Err: fmt.Sprintf("undecodable document returned for point %d: %v", it.ID, e)}
		}
		if r.Distance != nil || r.Score != nil {
			a.Ranked = true
		}
		a.Items = append(a.Items, it)
	}
	return a
}

func (w *ShardWorld) Ask(req models.SearchRequest) Answer {
	return toAnswer(w.Sh.SearchPoints(cloneRequest(req)))
}

func (w *ShardWorld) AskPanel(panel []models.SearchRequest) []Answer {
	out := make([]Answer, len(panel))
	for i, q := range panel {
		out[i] = w.Ask(q)
	}
	return out
}

// cloneRequest protects the panel from implementations that mutate their input
// (the case-insensitive string-array search lower-cases the request's slice in place).
func cloneRequest(req models.SearchRequest) models.SearchRequest {
	b, err := msgpackMarshal(req)
	if err != nil {
		panic(err)
	}
	var c models.SearchRequest
	if err := msgpackUnmarshal(b, &c); err != nil {
		panic(err)
	}
	return c
}

const relTol, absTol = 1e-4, 1e-5

func close32(a, b float32) bool {
	x, y := float64(a), float64(b)
	if x == y {
		return true
	}
	d := math.Abs(x - y)
	return d <= absTol || d <= relTol*math.Max(math.Abs(x), math.Abs(y))
}

func closeP(a, b *float32) bool {
	if a == nil || b == nil {
		return a == b
	}
	return close32(*a, *b)
}

// CompareAnswers checks that two instances answered a request consistently:
// same error status, same ids with the same documents and scores; for ranked
// results ids tied (within tolerance) with the last place may be exchanged.
func CompareAnswers(a, b Answer) string {
	if (a.Err != "") != (b.Err != "") {
		return fmt.Sprintf("one instance fails (%q) and the other does not (%q)", a.Err, b.Err)
	}
	if a.Err != "" {
		return ""
	}
	if len(a.Items) != len(b.Items) {
		return fmt.Sprintf("result counts differ: %d vs %d (%s | %s)", len(a.Items), len(b.Items), fmtItems(a.Items), fmtItems(b.Items))
	}
	am, bm := map[int]Item{}, map[int]Item{}
	for _, it := range a.Items {
		am[it.ID] = it
	}
	for _, it := range b.Items {
		bm[it.ID] = it
	}
	if len(am) != len(a.Items) || len(bm) != len(b.Items) {
		return "duplicate ids in a result list: " + fmtItems(a.Items) + " | " + fmtItems(b.Items)
	}
	var onlyA, onlyB []Item
	for id, x := range detRange(am) {
		y, ok := bm[id]
		if !ok {
			onlyA = append(onlyA, x)
			continue
		}
		if !closeP(x.Dist, y.Dist) || !closeP(x.Score, y.Score) || !close32(x.Hybrid, y.Hybrid) {
			return fmt.Sprintf("id %d: scores differ: %s vs %s", id, fmtItems([]Item{x}), fmtItems([]Item{y}))
		}
		if x.Doc != nil && y.Doc != nil && !DocEqual(x.Doc, y.Doc) {
			return fmt.Sprintf("id %d: documents differ: %v vs %v", id, x.Doc, y.Doc)
		}
	}
	for id, y := range detRange(bm) {
		if _, ok := am[id]; !ok {
			onlyB = append(onlyB, y)
		}
	}
	if len(onlyA) == 0 && len(onlyB) == 0 {
		return ""
	}
	if !a.Ranked || !b.Ranked {
		return fmt.Sprintf("id sets differ: %s vs %s", fmtItems(a.Items), fmtItems(b.Items))
	}
	// exchanged ids must be ties with the last place of both lists
	la, lb := a.Items[len(a.Items)-1], b.Items[len(b.Items)-1]
	if !close32(la.Hybrid, lb.Hybrid) && !(closeP(la.Dist, lb.Dist) && closeP(la.Score, lb.Score)) {
		return fmt.Sprintf("id sets differ and last places are not tied: %s vs %s", fmtItems(a.Items), fmtItems(b.Items))
	}
	for _, x := range onlyA {
		if !(closeP(x.Dist, la.Dist) && closeP(x.Score, la.Score)) {
			return fmt.Sprintf("id %d only in the first answer and not tied with its last place: %s vs %s", x.ID, fmtItems(a.Items), fmtItems(b.Items))
		}
	}
	for _, y := range onlyB {
		if !(closeP(y.Dist, lb.Dist) && closeP(y.Score, lb.Score)) {
			return fmt.Sprintf("id %d only in the second answer and not tied with its last place: %s vs %s", y.ID, fmtItems(a.Items), fmtItems(b.Items))
		}
	}
	return ""
}

func fmtItems(items []Item) string {
	s := "["
	for i, it := range items {
		if i > 0 {
			s += " "
		}
		s += fmt.Sprint(it.ID)
		if it.Dist != nil {
			s += fmt.Sprintf("(d=%g)", *it.Dist)
		}
		if it.Score != nil {
			s += fmt.Sprintf("(s=%g)", *it.Score)
		}
		if i > 30 {
			s += " …"
			break
		}
	}
	return s + "]"
}

func sortedIDs(items []Item) []int {
	out := make([]int, len(items))
	for i, it := range items {
		out[i] = it.ID
	}
	sort.Ints(out)
	return out
}

// ComparePanels compares two instances over a whole panel.
func ComparePanels(panel []models.SearchRequest, a, b []Answer) (int, string) {
	for i := range panel {
		if d := CompareAnswers(a[i], b[i]); d != "" {
			return i, d
		}
	}
	return -1, ""
}
