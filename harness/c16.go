package harness

import (
	"encoding/json"
	"fmt"
	"math/rand/v2"
	"sort"
	"strings"

	"github.com/google/uuid"
	"github.com/semafind/semadb/models"
	sim "github.com/semafind/semadb/zzsimrt"
)

// C16 — tenants are isolated from each other.
type c16Op struct {
	Kind  string         `json:"kind"` // create list get delcol insert update delete search
	Col   string         `json:"col,omitempty"`
	Entry int            `json:"entry"`
	IDs   []int          `json:"ids,omitempty"`
	Vals  map[string]int `json:"vals,omitempty"` // id -> value of field n (insert / update)
	Query int            `json:"query,omitempty"` // search: n >= Query
}

type c16Params struct {
	NServers int        `json:"n_servers"`
	Users    [2]string  `json:"users"`
	Ops      [2][]c16Op `json:"ops"`
	ColQuota int        `json:"collection_quota"`
	PtQuota  int64      `json:"point_quota"`
	ShardCap int64      `json:"shard_cap"`
}

type c16 struct{}

func init() { Register(c16{}) }

func (c16) ID() string { return "C16" }

func (c16) Rule() string {
	return "each run = two tenants whose ids come from an adversarial pool (one a prefix of the other, case variants, dots, spaces, percent-escapes, unicode, '.' and '..'; never '/'), using the same collection names and the same point uuids, each issuing a seeded history over every v2 endpoint (create / list / get / delete collection, insert / update / delete / search points) through the real HTTP handler chain of 1-2 real cluster nodes; the two histories run as concurrent tasks interleaved by the seeded scheduler; small per-user collection quota and per-collection point quota. Oracle: every response of a tenant (status code, listed collection ids, reported point counts, failed ranges / failed points, search results with documents) equals the response of that tenant's own sequential model, whatever the other tenant did. Non-trivial: both tenants created a collection with the same name and wrote points with the same ids. Distinct: (trace hash, final state of both models)."
}

var userPool = [][2]string{
	{"alice", "alic"}, {"alice", "alice2"}, {"a", "ab"}, {"ab", "a"}, {"bob", "Bob"}, {"a.b", "a"}, {"a b", "a"}, {"a", "a%2F"},
	{"ä", "a"}, {"u", "u."}, {".", "u"}, {"..", "u"}, {"u-1", "u"}, {"u_", "u"}, {"ali", "alice"},
}

func (c16) Generate(r *rand.Rand, tier string) (sim.Config, any) {
	cfg := RandomSimConfig(r)
	cfg.StmtYield = pick(r, []float64{0, 0, 0.02, 0.1}) // statement-level preemption in the handler / cluster packages
	cfg.IdleLimitSec = 3600
	p := c16Params{NServers: 1 + r.IntN(2), Users: pick(r, userPool), ColQuota: 1 + r.IntN(2), PtQuota: int64(8 + r.IntN(20)), ShardCap: int64(3 + r.IntN(6))}
	cols := []string{"col", "data", "xyz"}
	nops := 8 + r.IntN(8)
	if tier == "thorough" {
		nops = 12 + r.IntN(14)
	}
	for u := 0; u < 2; u++ {
		next := 0
		ops := []c16Op{{Kind: "create", Col: "col", Entry: r.IntN(p.NServers)}}
		for len(ops) < nops {
			op := c16Op{Col: pick(r, cols[:2]), Entry: r.IntN(p.NServers)}
			switch x := r.IntN(20); {
			case x < 3:
				op.Kind = "create"
				op.Col = pick(r, cols)
			case x < 5:
				op.Kind = "list"
			case x < 7:
				op.Kind = "get"
			case x < 8:
				op.Kind = "delcol"
			case x < 12:
				op.Kind = "insert"
				op.Vals = map[string]int{}
				for k := 0; k < 1+r.IntN(6); k++ {
					op.IDs = append(op.IDs, next)
					op.Vals[fmt.Sprint(next)] = r.IntN(100)
					next++
				}
			case x < 14:
				op.Kind = "update"
				op.Vals = map[string]int{}
				for k := 0; k < 1+r.IntN(3); k++ {
					id := r.IntN(next + 2)
					if _, dup := op.Vals[fmt.Sprint(id)]; !dup {
						op.IDs = append(op.IDs, id)
						op.Vals[fmt.Sprint(id)] = 100 + r.IntN(100)
					}
				}
			case x < 16:
				op.Kind = "delete"
				seen := map[int]bool{}
				for k := 0; k < 1+r.IntN(3); k++ {
					id := r.IntN(next + 2)
					if !seen[id] {
						seen[id] = true
						op.IDs = append(op.IDs, id)
					}
				}
			default:
				op.Kind = "search"
				op.Query = r.IntN(120)
			}
			ops = append(ops, op)
		}
		p.Ops[u] = ops
	}
	return cfg, p
}

func (c16) Sample(raw json.RawMessage) any {
	var p c16Params
	json.Unmarshal(raw, &p)
	var k [2][]string
	for u := 0; u < 2; u++ {
		for _, o := range p.Ops[u] {
			k[u] = append(k[u], o.Kind+":"+o.Col)
		}
	}
	return map[string]any{"users": p.Users, "n_servers": p.NServers, "ops": k, "collection_quota": p.ColQuota, "point_quota": p.PtQuota}
}

func (c16) Shrink(raw json.RawMessage) []json.RawMessage {
	var p c16Params
	json.Unmarshal(raw, &p)
	var out []json.RawMessage
	for u := 0; u < 2; u++ {
		for i := len(p.Ops[u]) - 1; i >= 1; i-- {
			q := p
			q.Ops[u] = append(append([]c16Op(nil), p.Ops[u][:i]...), p.Ops[u][i+1:]...)
			out = append(out, mustJSON(q))
		}
	}
	return out
}

type tenantModel struct {
	cols map[string]*RefShard
}

func (c16) Execute(env *Env) {
	var p c16Params
	if err := json.Unmarshal(env.Spec.Params, &p); err != nil {
		env.Infra("bad params: %v", err)
		return
	}
	sw := NewStoreWorld()
	sw.Install()
	defer sw.Uninstall()
	net := NewSimNet(nil, 0)
	net.Install()
	defer net.Uninstall()
	seedUUIDs(env.Spec.Seed)
	defer uuid.SetRand(nil)
	plan := models.UserPlan{Name: "p", MaxCollections: p.ColQuota, MaxCollectionPointCount: p.PtQuota, MaxPointSize: 3000}
	schemaJSON := `{"n":{"type":"integer"},"s":{"type":"string","string":{"caseSensitive":true}}}`
	sameName, sameIDs := [2]bool{}, [2]bool{}
	finals := [2]string{}
	env.RunSim(env.Spec.Sim, func() {
		w := NewClusterWorld(env, sw, net, clusterTemplate(p.ShardCap, 1, 300))
		w.Plans = map[string]models.UserPlan{"p": plan}
		servers := make([]string, p.NServers)
		for i := range servers {
			servers[i] = NodeAddr(i)
		}
		for i := range servers {
			if err := w.StartNode(i, servers); err != nil {
				env.Infra("start node: %v", err)
				return
			}
		}
		done := make(chan int, 2)
		for u := 0; u < 2; u++ {
			user := p.Users[u]
			m := &tenantModel{cols: map[string]*RefShard{}}
			sim.Go("c16:tenant", func() {
				defer func() { done <- u }()
				for i, op := range p.Ops[u] {
					where := fmt.Sprintf("tenant %q op %d (%s %s via n%d)", user, i, op.Kind, op.Col, op.Entry)
					do := func(method, path string, body any) (int, map[string]any) {
						var b []byte
						if body != nil {
							b, _ = json.Marshal(body)
						}
						st, rb, _ := w.HTTP(NodeAddr(op.Entry), method, "/v2"+path, user, "p", "application/json", b)
						var out map[string]any
						json.Unmarshal(rb, &out)
						if out == nil {
							out = map[string]any{"raw": string(rb)}
						}
						return st, out
					}
					bad := func(format string, a ...any) {
						env.Violate("isolation", "tenant-response:"+op.Kind, "%s: %s", where, fmt.Sprintf(format, a...))
					}
					col, exists := m.cols[op.Col]
					switch op.Kind {
					case "create":
						st, out := do("POST", "/collections", map[string]any{"id": op.Col, "indexSchema": json.RawMessage(schemaJSON)})
						want := 200
						if exists {
							want = 409
						} else if len(m.cols) >= p.ColQuota {
							want = 403
						}
						if st != want {
							bad("status %d, this tenant's own state demands %d (own collections: %v) — %v", st, want, sortedKeys(m.cols), out)
							return
						}
						if st == 200 {
							m.cols[op.Col] = NewRefShard(plan.MaxPointSize)
							if op.Col == "col" {
								sameName[u] = true
							}
						}
					case "list":
						st, out := do("GET", "/collections", nil)
						var got []string
						if arr, ok := out["collections"].([]any); ok {
							for _, x := range arr {
								if mm, ok := x.(map[string]any); ok {
									got = append(got, fmt.Sprint(mm["id"]))
								}
							}
						}
						sort.Strings(got)
						if st != 200 || strings.Join(got, ",") != strings.Join(sortedKeys(m.cols), ",") {
							bad("status %d, listed %v, this tenant owns %v", st, got, sortedKeys(m.cols))
							return
						}
					case "get":
						st, out := do("GET", "/collections/"+op.Col, nil)
						if !exists {
							if st != 404 {
								bad("status %d for a collection this tenant does not own (expected 404) — %v", st, out)
								return
							}
							continue
						}
						total := 0.0
						if arr, ok := out["shards"].([]any); ok {
							for _, x := range arr {
								if mm, ok := x.(map[string]any); ok {
									if c, ok := mm["pointCount"].(float64); ok {
										total += c
									}
								}
							}
						}
						if st != 200 || int(total) != len(col.Docs) {
							bad("status %d, %d points reported, this tenant stored %d — %v", st, int(total), len(col.Docs), out)
							return
						}
					case "delcol":
						st, out := do("DELETE", "/collections/"+op.Col, nil)
						if !exists {
							if st != 404 {
								bad("status %d deleting a collection this tenant does not own (expected 404) — %v", st, out)
								return
							}
							continue
						}
						if st != 200 && st != 202 {
							bad("status %d deleting an own collection — %v", st, out)
							return
						}
						delete(m.cols, op.Col)
					case "insert":
						var pts []map[string]any
						var batch []PointSpec
						for _, id := range op.IDs {
							v := op.Vals[fmt.Sprint(id)]
							pts = append(pts, map[string]any{"_id": PID(id).String(), "n": v, "s": user, "note": "of " + user})
							batch = append(batch, PointSpec{ID: id, Doc: DocSpec{"n": VI(int64(v)), "s": VS(user), "note": VS("of " + user)}})
						}
						st, out := do("POST", "/collections/"+op.Col+"/points", map[string]any{"points": pts})
						if !exists {
							if st != 404 {
								bad("status %d inserting into a collection this tenant does not own — %v", st, out)
								return
							}
							continue
						}
						if int64(len(col.Docs)+len(batch)) > p.PtQuota {
							if st != 403 {
								bad("status %d, own collection holds %d points, quota %d, inserting %d must be refused with 403 — %v", st, len(col.Docs), p.PtQuota, len(batch), out)
								return
							}
							continue
						}
						fr, _ := out["failedRanges"].([]any)
						if st != 200 || len(fr) > 0 {
							bad("status %d failedRanges %v inserting fresh ids within the quota (own points %d, quota %d) — %v", st, fr, len(col.Docs), p.PtQuota, out)
							return
						}
						col.Insert(batch)
						sameIDs[u] = true
					case "update", "delete":
						var st int
						var out map[string]any
						wantFailed := map[string]bool{}
						if op.Kind == "update" {
							var pts []map[string]any
							var batch []PointSpec
							for _, id := range op.IDs {
								v := op.Vals[fmt.Sprint(id)]
								pts = append(pts, map[string]any{"_id": PID(id).String(), "n": v})
								if exists {
									if _, live := col.Docs[PID(id)]; live {
										batch = append(batch, PointSpec{ID: id, Doc: DocSpec{"n": VI(int64(v))}})
									} else {
										wantFailed[PID(id).String()] = true
									}
								}
							}
							st, out = do("PUT", "/collections/"+op.Col+"/points", map[string]any{"points": pts})
							if exists && st == 200 {
								col.Update(batch)
							}
						} else {
							var ids []string
							var live []int
							for _, id := range op.IDs {
								ids = append(ids, PID(id).String())
								if exists {
									if _, ok := col.Docs[PID(id)]; ok {
										live = append(live, id)
									} else {
										wantFailed[PID(id).String()] = true
									}
								}
							}
							st, out = do("DELETE", "/collections/"+op.Col+"/points", map[string]any{"ids": ids})
							if exists && st == 200 {
								col.Delete(live)
							}
						}
						if !exists {
							if st != 404 {
								bad("status %d on a collection this tenant does not own — %v", st, out)
								return
							}
							continue
						}
						got := map[string]bool{}
						if arr, ok := out["failedPoints"].([]any); ok {
							for _, x := range arr {
								if mm, ok := x.(map[string]any); ok {
									got[fmt.Sprint(mm["id"])] = true
								}
							}
						}
						if st != 200 || len(got) != len(wantFailed) {
							bad("status %d failed points %v, this tenant's own state demands %v", st, sortedKeys(got), sortedKeys(wantFailed))
							return
						}
						for id := range detRange(wantFailed) {
							if !got[id] {
								bad("failed points %v, expected %v", sortedKeys(got), sortedKeys(wantFailed))
								return
							}
						}
					case "search":
						st, out := do("POST", "/collections/"+op.Col+"/points/search", map[string]any{
							"query": map[string]any{"property": "n", "integer": map[string]any{"value": op.Query, "operator": "greaterThanOrEquals"}}, "select": []string{"*"}, "limit": 100})
						if !exists {
							if st != 404 {
								bad("status %d searching a collection this tenant does not own — %v", st, out)
								return
							}
							continue
						}
						if st != 200 {
							bad("status %d searching an own collection — %v", st, out)
							return
						}
						got := map[string]map[string]any{}
						if arr, ok := out["points"].([]any); ok {
							for _, x := range arr {
								if mm, ok := x.(map[string]any); ok {
									got[fmt.Sprint(mm["_id"])] = mm
								}
							}
						}
						want := 0
						for id, d := range detRange(col.Docs) {
							n, _ := d["n"].(int64)
							if n < int64(op.Query) {
								continue
							}
							want++
							g, ok := got[id.String()]
							if !ok {
								bad("own point %d (n=%d) is missing from the search result", PIDIndex(id), n)
								return
							}
							if fmt.Sprint(g["s"]) != user || fmt.Sprint(g["note"]) != "of "+user || fmt.Sprint(g["n"]) != fmt.Sprint(n) {
								bad("point %d came back as %v, this tenant stored n=%d s=%q", PIDIndex(id), g, n, user)
								return
							}
						}
						if len(got) != want {
							bad("%d points returned, this tenant's own data has %d matches: %v", len(got), want, sortedKeys(got))
							return
						}
					}
				}
				finals[u] = ""
				for _, c := range sortedKeys(m.cols) {
					finals[u] += c + "{" + m.cols[c].StateKey() + "}"
				}
			})
		}
		for u := 0; u < 2; u++ {
			sim.Recv("c16:root", (<-chan int)(done))
		}
	})
	env.SetNonTrivial(sameName[0] && sameName[1] && sameIDs[0] && sameIDs[1])
	env.SetStateHash(finals[0] + "|" + finals[1])
}
