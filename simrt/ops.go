package zzsimrt

import (
	"cmp"
	"fmt"
	"iter"
	"math/rand/v2"
	"os"
	"runtime"
	"slices"
	"sync"
	"time"
)

// ---- channels -------------------------------------------------------------

func Send[T any](site string, c chan<- T, v T) {
	if S == nil {
		c <- v
		return
	}
	optionalYield(site)
	select {
	case c <- v: // completed without blocking: this goroutine never stopped running
		return
	default:
	}
	c <- v
	park("woke:" + site)
}

func Recv[T any](site string, c <-chan T) T {
	if S == nil {
		return <-c
	}
	optionalYield(site)
	select {
	case v := <-c:
		return v
	default:
	}
	v := <-c
	park("woke:" + site)
	return v
}

func Recv2[T any](site string, c <-chan T) (T, bool) {
	if S == nil {
		v, ok := <-c
		return v, ok
	}
	optionalYield(site)
	select {
	case v, ok := <-c:
		return v, ok
	default:
	}
	v, ok := <-c
	park("woke:" + site)
	return v, ok
}

// Slot carries the value received by a rewritten select case.
type Slot[T any] struct {
	V  T
	OK bool
}

func RecvSlot[T any](c <-chan T) *Slot[T] { return &Slot[T]{} }

// SelectOrder returns the PRNG-chosen polling order of a rewritten select
// (nil in pass-through mode: the original blocking select is used directly).
func SelectOrder(site string, n int) []int {
	if S == nil {
		return nil
	}
	optionalYield(site)
	S.mu.Lock()
	p := S.env.Perm(n)
	S.mu.Unlock()
	return p
}

func RangeChan[T any](site string, c <-chan T) iter.Seq[T] {
	return func(yield func(T) bool) {
		for {
			v, ok := Recv2(site, c)
			if !ok || !yield(v) {
				return
			}
		}
	}
}

// ---- maps -------------------------------------------------------------------

func keyLess(a, b any) int {
	switch x := a.(type) {
	case string:
		return cmp.Compare(x, b.(string))
	case uint64:
		return cmp.Compare(x, b.(uint64))
	case int:
		return cmp.Compare(x, b.(int))
	case int64:
		return cmp.Compare(x, b.(int64))
	case float64:
		return cmp.Compare(x, b.(float64))
	case uint:
		return cmp.Compare(x, b.(uint))
	case uint32:
		return cmp.Compare(x, b.(uint32))
	case [16]byte:
		y := b.([16]byte)
		return slices.Compare(x[:], y[:])
	}
	return cmp.Compare(fmt.Sprintf("%v", a), fmt.Sprintf("%v", b))
}

// RangeMap iterates a map in an order owned by the simulator: sorted keys,
// permuted by the run's PRNG when map shuffling is on. As in Go, entries
// deleted during the iteration are not produced.
func RangeMap[M ~map[K]V, K comparable, V any](site string, m M) iter.Seq2[K, V] {
	if S == nil {
		return func(yield func(K, V) bool) {
			for k, v := range m {
				if !yield(k, v) {
					return
				}
			}
		}
	}
	return func(yield func(K, V) bool) {
		keys := make([]K, 0, len(m))
		for k := range m {
			keys = append(keys, k)
		}
		slices.SortFunc(keys, func(a, b K) int { return keyLess(any(a), any(b)) })
		if S.cfg.ShuffleMaps {
			S.mu.Lock()
			S.env.Shuffle(len(keys), func(i, j int) { keys[i], keys[j] = keys[j], keys[i] })
			S.mu.Unlock()
		}
		for _, k := range keys {
			v, ok := m[k]
			if !ok {
				continue
			}
			if !yield(k, v) {
				return
			}
		}
	}
}

// ---- locks ------------------------------------------------------------------

// spin acquires a lock with try-lock; a goroutine that cannot get it is
// blocked (not schedulable) until somebody unlocks that lock.
func spin(site string, key any, try func() bool) {
	optionalYield(site)
	for !try() {
		g := cur()
		g.site = "lockwait:" + site
		S.mu.Lock()
		S.waiters[key] = append(S.waiters[key], g)
		S.mu.Unlock()
		ping()
		<-g.wake
	}
}

func released(key any) {
	if S == nil {
		return
	}
	S.mu.Lock()
	if ws := S.waiters[key]; len(ws) > 0 {
		S.parked = append(S.parked, ws...)
		delete(S.waiters, key)
	}
	S.mu.Unlock()
}

func MuLock(site string, m *sync.Mutex) {
	if S == nil {
		m.Lock()
		return
	}
	spin(site, m, m.TryLock)
}
func MuUnlock(site string, m *sync.Mutex) { m.Unlock(); released(m) }
func MuTryLock(site string, m *sync.Mutex) bool {
	Yield(site)
	return m.TryLock()
}
func RWLock(site string, m *sync.RWMutex) {
	if S == nil {
		m.Lock()
		return
	}
	spin(site, m, m.TryLock)
}
func RWUnlock(site string, m *sync.RWMutex) { m.Unlock(); released(m) }
func RWRLock(site string, m *sync.RWMutex) {
	if S == nil {
		m.RLock()
		return
	}
	spin(site, m, m.TryRLock)
}
func RWRUnlock(site string, m *sync.RWMutex) { m.RUnlock(); released(m) }
func RWTryRLock(site string, m *sync.RWMutex) bool {
	Yield(site)
	return m.TryRLock()
}
func RWTryLock(site string, m *sync.RWMutex) bool {
	Yield(site)
	return m.TryLock()
}

// SimLock is a simulation-aware mutex for harness code (storage proxy, sim network).
type SimLock struct{ mu sync.Mutex }

func (l *SimLock) Lock(site string)   { MuLock(site, &l.mu) }
func (l *SimLock) Unlock(site string) { MuUnlock(site, &l.mu) }

// WaitUntil blocks the calling task (sim-aware) until cond() holds; cond is
// re-evaluated whenever Signal(key) is called. Outside simulation it polls.
func WaitUntil(site string, key any, cond func() bool) {
	if S == nil {
		for !cond() {
			time.Sleep(time.Millisecond)
		}
		return
	}
	for !cond() {
		g := cur()
		g.site = "wait:" + site
		S.mu.Lock()
		S.waiters[key] = append(S.waiters[key], g)
		S.mu.Unlock()
		ping()
		<-g.wake
	}
}

func Signal(key any) { released(key) }

func WGWait(site string, wg *sync.WaitGroup) {
	if S == nil {
		wg.Wait()
		return
	}
	optionalYield(site)
	wg.Wait()
	park("woke:" + site)
}

// ---- sync.Pool ---------------------------------------------------------------

var (
	poolMu sync.Mutex
	pools  = map[*sync.Pool][]any{}
)

// PoolGet / PoolPut replace (*sync.Pool).Get / Put: a plain LIFO per pool, so that which
// object comes back depends on the schedule only (the real pool keeps per-P caches and
// drops objects at GC). Outside a simulation they fall through to the real pool.
func PoolGet(p *sync.Pool) any {
	if S == nil {
		return p.Get()
	}
	poolMu.Lock()
	l := pools[p]
	if n := len(l); n > 0 {
		x := l[n-1]
		pools[p] = l[:n-1]
		poolMu.Unlock()
		return x
	}
	poolMu.Unlock()
	if p.New != nil {
		return p.New()
	}
	return nil
}

func PoolPut(p *sync.Pool, x any) {
	if S == nil {
		p.Put(x)
		return
	}
	poolMu.Lock()
	pools[p] = append(pools[p], x)
	poolMu.Unlock()
}

// resetPools forgets pooled objects of an earlier run of this process.
func resetPools() {
	poolMu.Lock()
	pools = map[*sync.Pool][]any{}
	poolMu.Unlock()
}

// ---- time, cpu, randomness --------------------------------------------------

func Sleep(d time.Duration) {
	time.Sleep(d)
	if S != nil {
		park("woke:sleep")
	}
}

func NumCPU() int {
	if S == nil {
		return runtime.NumCPU()
	}
	return S.cfg.Workers + 1
}

func RandFloat32() float32 {
	if S == nil {
		return rand.Float32()
	}
	S.mu.Lock()
	defer S.mu.Unlock()
	return S.env.Float32()
}

func RandIntN(n int) int {
	if S == nil {
		return rand.IntN(n)
	}
	S.mu.Lock()
	defer S.mu.Unlock()
	return S.env.IntN(n)
}

func RandFloat64() float64 {
	if S == nil {
		return rand.Float64()
	}
	S.mu.Lock()
	defer S.mu.Unlock()
	return S.env.Float64()
}

func RandPerm(n int) []int {
	if S == nil {
		return rand.Perm(n)
	}
	S.mu.Lock()
	defer S.mu.Unlock()
	return S.env.Perm(n)
}

func RandShuffle(n int, swap func(i, j int)) {
	if S == nil {
		rand.Shuffle(n, swap)
		return
	}
	S.mu.Lock()
	defer S.mu.Unlock()
	S.env.Shuffle(n, swap)
}

// Knob returns a per-run tuning value (buggify) or def when the run does not set it.
func Knob(name string, def int) int {
	if S == nil {
		return def
	}
	if v, ok := S.cfg.Knobs[name]; ok {
		return v
	}
	return def
}

// EnvRand gives the harness access to the run's environment PRNG (deterministic).
func EnvUint64() uint64 {
	S.mu.Lock()
	defer S.mu.Unlock()
	return S.env.Uint64()
}

// ---- file-system hooks (package cluster) --------------------------------------

// FSHook, when set by the harness, is called before a file-system mutation
// made by instrumented code (audit of removals for C12/C14, short write / kill
// inside a chunk append for C14). A non-nil error makes the operation fail;
// for "write", n >= 0 asks for a short write of n bytes.
var FSHook func(op, path string, size int) (n int, err error)

func FSRemoveAll(path string) error {
	if FSHook != nil {
		Yield("fs:removeall")
		if _, err := FSHook("removeall", path, 0); err != nil {
			return err
		}
	}
	return os.RemoveAll(path)
}

func FSRemove(path string) error {
	if FSHook != nil {
		Yield("fs:remove")
		if _, err := FSHook("remove", path, 0); err != nil {
			return err
		}
	}
	return os.Remove(path)
}

func FSRename(a, b string) error {
	if FSHook != nil {
		Yield("fs:rename")
		if _, err := FSHook("rename", a+"\x00"+b, 0); err != nil {
			return err
		}
	}
	return os.Rename(a, b)
}

func FSWrite(f *os.File, b []byte) (int, error) {
	if FSHook != nil {
		Yield("fs:write")
		n, err := FSHook("write", f.Name(), len(b))
		if err != nil {
			if n > 0 && n < len(b) {
				f.Write(b[:n])
			}
			// the harness may kill the writing process right here (torn chunk on disk)
			FSHook("after-short-write", f.Name(), max(n, 0))
			return max(n, 0), err
		}
	}
	return f.Write(b)
}

func FSWriteAt(f *os.File, b []byte, off int64) (int, error) {
	if FSHook != nil {
		Yield("fs:write")
		n, err := FSHook("write", f.Name(), len(b))
		if err != nil {
			if n > 0 && n < len(b) {
				f.WriteAt(b[:n], off)
			}
			FSHook("after-short-write", f.Name(), max(n, 0))
			return max(n, 0), err
		}
	}
	return f.WriteAt(b, off)
}

// KnobInit wraps the initialiser of a package-level variable that replaced a
// constant (cluster.CHUNKSIZE); the harness assigns the variable directly.
func KnobInit(name string, def int) int { return def }

// StopTimeJumps ends scheduler-initiated advances of simulated time (the fault
// phase is over; bounded-liveness probes follow). Timers still fire when every
// task is blocked, as always.
func StopTimeJumps() {
	if S == nil {
		return
	}
	S.mu.Lock()
	S.cfg.TimeJumpProb = 0
	S.mu.Unlock()
}
