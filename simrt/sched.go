// Package zzsimrt is the deterministic simulation runtime that the simgo
// instrumenter wires into a scratch copy of semadb. With S == nil every
// function is a pass-through to the original Go construct, so the instrumented
// tree behaves like the original one (the repository's own tests are run that
// way as a gate).
//
// With S != nil exactly one registered goroutine ("task") runs at a time. A
// task stops at scheduling points (before channel / lock / storage operations
// and, mandatorily, after waking up from a real blocking operation) by parking
// on its private wake channel. The scheduler goroutine waits for quiescence of
// the synctest bubble, picks one enabled task (or simulator event, or a time
// jump) from the seeded choice stream and releases it.
package zzsimrt

import (
	"bytes"
	"cmp"
	"fmt"
	"hash/fnv"
	"math/rand/v2"
	"runtime"
	"runtime/debug"
	"slices"
	"strconv"
	"strings"
	"sync"
	"testing/synctest"
	"time"
)

// Config is everything that decides a run besides the workload and fault plan.
type Config struct {
	Seed         uint64         `json:"seed"`
	Strategy     string         `json:"strategy"` // random | sticky | pct
	StickyP      float64        `json:"sticky_p,omitempty"`
	PCTDepth     int            `json:"pct_depth,omitempty"`
	PCTHorizon   int            `json:"pct_horizon,omitempty"` // priority change points are drawn from [0, horizon) scheduler steps
	YieldDensity float64        `json:"yield_density"` // probability that an optional (pre-op) yield is honoured
	StmtYield    float64        `json:"stmt_yield,omitempty"` // probability that a statement-level preemption point (request handlers, cluster layer) is honoured; 0 = never
	TimeJumpProb float64        `json:"time_jump_prob,omitempty"`
	StallProb    float64        `json:"stall_prob,omitempty"` // per scheduling decision: the chosen task is not run but stalled (a slow / descheduled thread) for up to StallLen steps; 0 = never
	StallLen     int            `json:"stall_len,omitempty"`
	SpawnStall   float64        `json:"spawn_stall,omitempty"` // probability that a task which has just started a goroutine is stalled right there (the window "stage started ... next statement of the starter")
	Workers      int            `json:"workers"` // NumCPU()-1 seen by the code
	MaxSteps     int            `json:"max_steps"`
	ShuffleMaps  bool           `json:"shuffle_maps"`
	IdleLimitSec int            `json:"idle_limit_sec,omitempty"` // simulated seconds without any enabled event => deadlock
	PreemptAfter int            `json:"preempt_budget,omitempty"` // >0: after this many context switches the scheduler never preempts again (minimiser knob)
	Knobs        map[string]int `json:"knobs,omitempty"`
}

// Crash records a panic in any goroutine of the system under test.
type Crash struct {
	Task  string `json:"task"`
	Site  string `json:"site"`
	Value string `json:"value"`
	Stack string `json:"stack"`
}

// Outcome of a run.
type Outcome struct {
	Steps     int            `json:"steps"`
	Switches  int            `json:"switches"`
	TraceHash string         `json:"trace_hash"`
	Tail      []string       `json:"tail,omitempty"`
	Crashes   []Crash        `json:"crashes,omitempty"`
	Deadlock  string         `json:"deadlock,omitempty"`
	Budget    bool           `json:"step_budget_exhausted,omitempty"`
	SimTime   time.Duration  `json:"sim_time_ns"`
	Counters  map[string]int `json:"counters,omitempty"`
	TimeJumps int            `json:"time_jumps,omitempty"`
}

type G struct {
	id      string
	wake    chan struct{}
	site    string
	kids    int
	node    string
	prio    int
	foreign bool
	done    bool
}

type event struct {
	id  string
	run func()
}

type Sched struct {
	mu      sync.Mutex
	cfg     Config
	byGoid  map[uint64]*G
	parked  []*G
	waiters map[any][]*G
	events  []event
	notify  chan struct{}
	rng     *rand.Rand // schedule choices
	env     *rand.Rand // randomness seen by the code under test (rand.*, map order, select order)
	live    int
	foreign int
	steps   int
	sw      int
	jumps   int
	last    *G
	hash    uint64
	tail    []string
	crashes []Crash
	abort   bool
	root    bool
	killed  map[string]bool
	counter map[string]int
	seq     uint64
	start   time.Time
	pctCP   map[int]bool
	lowPrio int
	stalled map[*G]int // task -> first step at which it may run again
}

// TraceAll makes the scheduler keep the complete event trace (debugging aid for
// the determinism self-test).
var TraceAll bool
var FullTrace []string

// S is the active scheduler; nil means pass-through.
var S *Sched

const tailLen = 60

func goid() uint64 {
	var buf [64]byte
	n := runtime.Stack(buf[:], false)
	b := buf[len("goroutine "):n]
	i := bytes.IndexByte(b, ' ')
	v, _ := strconv.ParseUint(string(b[:i]), 10, 64)
	return v
}

func cur() *G {
	id := goid()
	S.mu.Lock()
	g := S.byGoid[id]
	if g == nil { // goroutine started by un-instrumented code: adopt lazily
		S.foreign++
		g = &G{id: fmt.Sprintf("F%d", S.foreign), wake: make(chan struct{}), foreign: true}
		S.byGoid[id] = g
	}
	S.mu.Unlock()
	return g
}

func ping() {
	select {
	case S.notify <- struct{}{}:
	default:
	}
}

func park(site string) {
	g := cur()
	g.site = site
	S.mu.Lock()
	S.parked = append(S.parked, g)
	S.mu.Unlock()
	ping()
	<-g.wake
}

// draw returns the next value of the schedule choice stream. Caller holds S.mu.
func (s *Sched) draw() uint64 { return s.rng.Uint64() }

func optionalYield(site string) {
	if S.cfg.YieldDensity < 1 {
		S.mu.Lock()
		skip := float64(S.draw()>>11)/(1<<53) >= S.cfg.YieldDensity
		S.mu.Unlock()
		if skip {
			return
		}
	}
	park(site)
}

// Active reports whether a simulated run is in progress.
func Active() bool { return S != nil }

// Yield is an optional scheduling point.
func Yield(site string) {
	if S == nil {
		return
	}
	optionalYield(site)
}

// StmtYield is a statement-level preemption point: simgo puts one before every
// statement of the request-handler and cluster packages, so that goroutines sharing
// plain variables there can be interleaved between any two statements.
func StmtYield(site string) {
	s := S
	if s == nil || s.cfg.StmtYield <= 0 {
		return
	}
	s.mu.Lock()
	skip := float64(s.draw()>>11)/(1<<53) >= s.cfg.StmtYield
	if !skip {
		s.counter["stmt-yield-taken"]++
	}
	s.mu.Unlock()
	if skip {
		return
	}
	park(site)
}

// YieldAlways is a scheduling point that is never skipped by the density knob.
func YieldAlways(site string) {
	if S == nil {
		return
	}
	park(site)
}

// Woke is the mandatory parking point after a real blocking operation returned.
func Woke(site string) {
	if S == nil {
		return
	}
	park("woke:" + site)
}

// Seq returns the next global event sequence number (history stamps).
func Seq() uint64 {
	if S == nil {
		return 0
	}
	S.mu.Lock()
	defer S.mu.Unlock()
	S.seq++
	return S.seq
}

// Count increments a probe counter (no PRNG draw, no clock read).
func Count(name string) {
	if S == nil {
		return
	}
	S.mu.Lock()
	S.counter[name]++
	S.mu.Unlock()
}

// Counter reads a probe / fault counter of the running simulation.
func Counter(name string) int {
	if S == nil {
		return 0
	}
	S.mu.Lock()
	defer S.mu.Unlock()
	return S.counter[name]
}

func CountN(name string, n int) {
	if S == nil {
		return
	}
	S.mu.Lock()
	S.counter[name] += n
	S.mu.Unlock()
}

// CurrentTask returns the structural id of the running task ("" outside simulation).
func CurrentTask() string {
	if S == nil {
		return ""
	}
	return cur().id
}

// SetNode tags the current task (and the tasks it starts later) with a node name.
func SetNode(node string) {
	if S == nil {
		return
	}
	cur().node = node
}

func CurrentNode() string {
	if S == nil {
		return ""
	}
	return cur().node
}

// KillNode stops scheduling every task tagged with node, for ever (SIGKILL:
// no deferred function runs). The caller, if it belongs to the node, parks for ever.
func KillNode(node string) {
	if S == nil {
		return
	}
	S.mu.Lock()
	S.killed[node] = true
	S.counter["kill:"+node]++
	S.mu.Unlock()
	if g := cur(); g.node == node {
		S.mu.Lock()
		if !g.foreign {
			S.live--
		}
		S.mu.Unlock()
		ping()
		select {} // durably blocked for the rest of the bubble
	}
}

// ReviveNode allows new tasks tagged with node to be scheduled again (a restarted process).
// Tasks of the previous incarnation stay dead because they were tagged with node+"#dead".
func ReviveNode(node string) {
	if S == nil {
		return
	}
	S.mu.Lock()
	for _, g := range S.byGoid {
		if g.node == node {
			g.node = node + "#dead"
		}
	}
	S.killed[node+"#dead"] = true
	delete(S.killed, node)
	S.mu.Unlock()
}

func recordCrash(g *G, r any, stack []byte) {
	st := string(stack)
	if len(st) > 6000 {
		st = st[:6000]
	}
	S.mu.Lock()
	S.crashes = append(S.crashes, Crash{Task: g.id, Site: g.site, Value: fmt.Sprint(r), Stack: st})
	S.abort = true
	S.mu.Unlock()
}

// RecordCrash lets the harness (storage proxy) report a recovered panic.
func RecordCrash(r any, stack []byte) {
	if S == nil {
		return
	}
	recordCrash(cur(), r, stack)
}

// Go replaces the go statement.
func Go(site string, f func()) {
	if S == nil {
		go f()
		return
	}
	p := cur()
	p.kids++
	g := &G{id: p.id + "." + strconv.Itoa(p.kids), wake: make(chan struct{}), node: p.node}
	S.mu.Lock()
	S.live++
	S.assignPrio(g)
	stall := false
	if S.cfg.SpawnStall > 0 && float64(S.draw()>>11)/(1<<53) < S.cfg.SpawnStall {
		ln := S.cfg.StallLen
		if ln <= 0 {
			ln = 100
		}
		if S.stalled == nil {
			S.stalled = map[*G]int{}
		}
		S.stalled[p] = S.steps + 1 + int(S.draw()%uint64(ln))
		S.counter["fault:task-stall-after-spawn"]++
		stall = true
	}
	S.mu.Unlock()
	go func() {
		S.mu.Lock()
		S.byGoid[goid()] = g
		S.mu.Unlock()
		debug.SetPanicOnFault(true)
		park("start:" + site)
		defer func() {
			if r := recover(); r != nil {
				recordCrash(g, r, debug.Stack())
			}
			S.mu.Lock()
			delete(S.byGoid, goid())
			S.live--
			S.mu.Unlock()
			ping()
		}()
		f()
	}()
	if stall {
		park("spawned:" + site)
	}
}

func (s *Sched) assignPrio(g *G) {
	if s.cfg.Strategy == "pct" {
		// random priority above the change-point priorities
		g.prio = 1000 + int(s.draw()%1000000)
	}
}

// AddEvent registers a simulator event (network delivery, timer of the harness…)
// that the scheduler may choose instead of a task. Events run on the scheduler goroutine.
func AddEvent(id string, run func()) {
	S.mu.Lock()
	S.events = append(S.events, event{id, run})
	S.mu.Unlock()
	ping()
}

func (s *Sched) note(entry string) {
	h := fnv.New64a()
	var b [8]byte
	for i := 0; i < 8; i++ {
		b[i] = byte(s.hash >> (8 * i))
	}
	h.Write(b[:])
	h.Write([]byte(entry))
	s.hash = h.Sum64()
	if TraceAll {
		FullTrace = append(FullTrace, entry)
	}
	if len(s.tail) >= tailLen {
		copy(s.tail, s.tail[1:])
		s.tail = s.tail[:tailLen-1]
	}
	s.tail = append(s.tail, entry)
}

// Note mixes a harness-level observation (e.g. an operation result) into the trace hash.
func Note(entry string) {
	if S == nil {
		return
	}
	S.mu.Lock()
	S.note("note:" + entry)
	S.mu.Unlock()
}

func (s *Sched) describeBlocked() string {
	var parts []string
	waiting := map[*G]bool{}
	for _, ws := range s.waiters {
		for _, w := range ws {
			parts = append(parts, w.id+"@"+w.site)
			waiting[w] = true
		}
	}
	// tasks that are neither parked nor lock-waiting are blocked inside a real
	// channel / WaitGroup / timer operation: report where they were last seen
	for _, g := range s.byGoid {
		if g.foreign || waiting[g] || s.killed[g.node] || g.done {
			continue
		}
		parts = append(parts, g.id+"@blocked-after:"+g.site)
	}
	slices.Sort(parts)
	return strings.Join(parts, " ")
}

// Run executes root under the seeded scheduler; must be called inside a synctest bubble.
func Run(cfg Config, root func()) Outcome {
	if cfg.MaxSteps == 0 {
		cfg.MaxSteps = 400000
	}
	if cfg.IdleLimitSec == 0 {
		cfg.IdleLimitSec = 3 * 3600
	}
	if cfg.Workers == 0 {
		cfg.Workers = 3
	}
	if cfg.YieldDensity == 0 {
		cfg.YieldDensity = 1
	}
	resetPools()
	S = &Sched{cfg: cfg, byGoid: map[uint64]*G{}, notify: make(chan struct{}, 1),
		rng: rand.New(rand.NewPCG(cfg.Seed, 0x5eed5eed)), env: rand.New(rand.NewPCG(cfg.Seed, 0xe17e17)),
		waiters: map[any][]*G{}, killed: map[string]bool{}, counter: map[string]int{}, start: time.Now(), pctCP: map[int]bool{}}
	s := S
	defer func() { S = nil }()
	if cfg.Strategy == "pct" {
		horizon := cfg.PCTHorizon
		if horizon <= 0 {
			horizon = 2000
		}
		for i := 0; i < cfg.PCTDepth; i++ {
			s.pctCP[int(s.draw()%uint64(horizon))] = true
		}
	}
	rg := &G{id: "0", wake: make(chan struct{})}
	s.live = 1
	s.assignPrio(rg)
	go func() {
		s.mu.Lock()
		s.byGoid[goid()] = rg
		s.mu.Unlock()
		debug.SetPanicOnFault(true)
		park("root")
		defer func() {
			if r := recover(); r != nil {
				recordCrash(rg, r, debug.Stack())
			}
			s.mu.Lock()
			s.root = true
			s.live--
			s.mu.Unlock()
			ping()
		}()
		root()
	}()
	out := Outcome{}
	idle := time.Duration(0)
	for {
		synctest.Wait()
		s.mu.Lock()
		if s.root || s.abort {
			s.mu.Unlock()
			break
		}
		if s.steps >= cfg.MaxSteps {
			out.Budget = true
			s.mu.Unlock()
			break
		}
		// enabled tasks
		en := s.parked[:0:0]
		for _, g := range s.parked {
			if !s.killed[g.node] {
				en = append(en, g)
			}
		}
		if len(s.stalled) > 0 {
			// stalled tasks sit out until their step, unless nothing else could run
			free := en[:0:0]
			for _, g := range en {
				if until, ok := s.stalled[g]; ok && until > s.steps {
					continue
				}
				delete(s.stalled, g)
				free = append(free, g)
			}
			if len(free) == 0 && len(s.events) == 0 {
				clear(s.stalled)
			} else {
				en = free
			}
		}
		if len(en) == 0 && len(s.events) == 0 {
			desc := s.describeBlocked()
			s.mu.Unlock()
			// nothing runnable: let the fake clock advance to the next timer of the system
			t0 := time.Now()
			tm := time.NewTimer(time.Minute)
			select {
			case <-s.notify:
				tm.Stop()
				idle = 0
			case <-tm.C:
				idle += time.Since(t0)
				if idle >= time.Duration(cfg.IdleLimitSec)*time.Second {
					out.Deadlock = fmt.Sprintf("no task, event or timer made progress for %v of simulated time; lock waiters: [%s]", idle, desc)
					goto done
				}
			}
			continue
		}
		idle = 0
		if s.cfg.TimeJumpProb > 0 && float64(s.draw()>>11)/(1<<53) < s.cfg.TimeJumpProb {
			d := []time.Duration{time.Millisecond, 100 * time.Millisecond, time.Second, 10 * time.Second, 100 * time.Second}[s.draw()%5]
			s.note("timejump")
			s.jumps++
			s.mu.Unlock()
			select {
			case <-s.notify:
			default:
			}
			tm := time.NewTimer(d)
			select {
			case <-s.notify:
				tm.Stop()
			case <-tm.C:
			}
			continue
		}
		// order: last-run task first (so that choice 0 == "do not preempt"), then by id; events after tasks
		slices.SortFunc(en, func(a, b *G) int {
			if (a == s.last) != (b == s.last) {
				if a == s.last {
					return -1
				}
				return 1
			}
			return cmp.Compare(a.id, b.id)
		})
		n := len(en) + len(s.events)
		idx := 0
		noPreempt := cfg.PreemptAfter > 0 && s.sw >= cfg.PreemptAfter
		switch {
		case noPreempt:
			idx = 0
		case cfg.Strategy == "sticky":
			if len(en) > 0 && en[0] == s.last && float64(s.draw()>>11)/(1<<53) < cfg.StickyP {
				idx = 0
			} else {
				idx = int(s.draw() % uint64(n))
			}
		case cfg.Strategy == "pct":
			if s.pctCP[s.steps] && s.last != nil {
				s.lowPrio--
				s.last.prio = s.lowPrio // drop below everything else
			}
			if len(s.events) > 0 && (len(en) == 0 || s.draw()%4 == 0) {
				idx = len(en) + int(s.draw()%uint64(len(s.events)))
			} else {
				best := 0
				for i, g := range en {
					if g.prio > en[best].prio {
						best = i
					}
				}
				idx = best
			}
		default:
			idx = int(s.draw() % uint64(n))
		}
		if cfg.StallProb > 0 && !noPreempt && idx < len(en) && n > 1 && float64(s.draw()>>11)/(1<<53) < cfg.StallProb {
			ln := cfg.StallLen
			if ln <= 0 {
				ln = 100
			}
			g := en[idx]
			if s.stalled == nil {
				s.stalled = map[*G]int{}
			}
			s.stalled[g] = s.steps + 1 + int(s.draw()%uint64(ln))
			s.counter["fault:task-stall"]++
			s.note("stall:" + g.id + "@" + g.site)
			s.mu.Unlock()
			continue
		}
		s.steps++
		if idx < len(en) {
			g := en[idx]
			for i, p := range s.parked {
				if p == g {
					s.parked = append(s.parked[:i], s.parked[i+1:]...)
					break
				}
			}
			if g != s.last {
				s.sw++
			}
			s.last = g
			s.note(g.id + "@" + g.site)
			s.mu.Unlock()
			g.wake <- struct{}{}
		} else {
			ev := s.events[idx-len(en)]
			s.events = append(s.events[:idx-len(en)], s.events[idx-len(en)+1:]...)
			s.note("ev:" + ev.id)
			s.mu.Unlock()
			ev.run()
		}
	}
done:
	s.mu.Lock()
	out.Steps = s.steps
	out.Switches = s.sw
	out.TraceHash = fmt.Sprintf("%016x", s.hash)
	out.Tail = append([]string(nil), s.tail...)
	out.Crashes = append([]Crash(nil), s.crashes...)
	out.SimTime = time.Since(s.start)
	out.Counters = map[string]int{}
	for k, v := range s.counter {
		out.Counters[k] = v
	}
	out.TimeJumps = s.jumps
	s.abort = true
	s.mu.Unlock()
	return out
}
